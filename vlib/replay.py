"""`./check <id> --replay <path>`: re-run one recorded counterexample natively against /repo's current tree."""
import json

from .kani import Overlay, native_replay


def replay_file(run, path, gen_all, file, tag, preamble=None):
    with open(path) as f:
        rec = json.load(f)
    rp = rec.get("replay", {})
    name = rp.get("harness")
    hs = [h for h in gen_all() if h.name == name]
    if not hs:
        print(f"replay: harness {name} is not generated for the current tree")
        return 2
    h = hs[0]
    ov = Overlay(run, tag)
    if preamble:
        ov.preamble(getattr(h, "file", None) or file, preamble)
    ov.add(getattr(h, "file", None) or file, h)
    ov.write()
    worst = 0
    for prof in ("dev", "release"):
        oc, log = native_replay(run, h, rp.get("vals", []), prof)
        print(f"replay[{prof}] {name}: {oc}")
        for l in log.splitlines():
            if l.startswith("VERIF-OBSERVED") or "panicked at" in l:
                print("   ", l)
        if oc == "reproduced":
            worst = 1
    if worst:
        print(f"VIOLATION property={rec.get('property')} replay={path}")
    return worst
