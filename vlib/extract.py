"""Extraction of facts from /repo's *current* source text (never from a cached copy).

eval_arms(src)      which function implements which Expr node kind (read from the `match self` of eval_rec)
"""
import re

from .common import EncodingError


def balanced(src, start, open_ch="{", close_ch="}"):
    """Return the index just past the brace that closes the one at `start`. Skips strings/chars/comments."""
    assert src[start] == open_ch
    depth = 0
    i = start
    n = len(src)
    while i < n:
        c = src[i]
        if c == "/" and src.startswith("//", i):
            i = src.find("\n", i)
            if i < 0:
                return n
            continue
        if c == '"':
            # raw strings r#"..."#
            j = i - 1
            hashes = 0
            while j >= 0 and src[j] == "#":
                hashes += 1
                j -= 1
            if j >= 0 and src[j] == "r":
                end = src.find('"' + "#" * hashes, i + 1)
                i = end + 1 + hashes
                continue
            i += 1
            while i < n and src[i] != '"':
                if src[i] == "\\":
                    i += 1
                i += 1
            i += 1
            continue
        if c == "'":
            # char literal or lifetime
            m = re.match(r"'(\\.|[^\\'])'", src[i:])
            if m:
                i += m.end()
                continue
        if c == open_ch:
            depth += 1
        elif c == close_ch:
            depth -= 1
            if depth == 0:
                return i + 1
        i += 1
    raise EncodingError("unbalanced braces while scanning source")


def eval_arms(src):
    """Map Expr variant -> dict(fn=<function called>, strict=<number of operands evaluated eagerly in the arm>,
    lazy=<bool: sub-expressions are passed unevaluated>, text=<arm text>)."""
    m = re.search(r"async fn eval_rec\b[^{]*\{", src)
    if not m:
        raise EncodingError("eval_rec not found in src/expr/eval/mod.rs")
    body_end = balanced(src, m.end() - 1)
    body = src[m.end():body_end]
    mm = re.search(r"match self \{", body)
    if not mm:
        raise EncodingError("eval_rec has no `match self`")
    mend = balanced(body, mm.end() - 1)
    arms_txt = re.sub(r"(?m)^\s*//[^\n]*\n", "", body[mm.end():mend - 1])
    arms_txt = re.sub(r"(?m)(?<=[,;{}])\s*//[^\n]*$", "", arms_txt)
    # split at top-level `Expr::Variant(...) =>`
    heads = [(x.start(), x.group(1), x.group(2)) for x in re.finditer(r"(?m)^\s*Expr::(\w+)\(([^)]*)\)\s*=>", arms_txt)]
    arms = {}
    for idx, (pos, variant, binds) in enumerate(heads):
        end = heads[idx + 1][0] if idx + 1 < len(heads) else len(arms_txt)
        text = arms_txt[pos:end].strip()
        rhs = text.split("=>", 1)[1].strip()
        calls = [c for c in re.findall(r"(?<![\w.:])(\w+)\(", rhs) if c not in ("Ok", "Err", "Some")]
        meth = re.findall(r"context\.(\w+)\(", rhs)
        strict = len(re.findall(r"\.eval_rec\(context\)\s*\.await\?", rhs))
        fn = calls[0] if calls else (("context." + meth[0]) if meth else None)
        arms[variant] = {"fn": fn, "strict": strict, "lazy": bool(re.search(r"\b\w+\(\s*context\s*,", rhs)),
                         "binds": [b.strip() for b in binds.split(",") if b.strip()], "text": text,
                         "post": ".map(" in rhs}
    if len(arms) < 40:
        raise EncodingError(f"only {len(arms)} eval_rec arms recognised")
    return arms


# ------------------------------------------------------------------------------------------------------------
def display_templates(expr_src):
    """Templates of `impl Display for Expr`, read from the source text.

    Returns (templates, helpers):
      templates[Variant] = list of pieces: ("lit", text) | ("child", field_index, wrapper or None) | ("tok", field_index)
                           | ("list", field_index, sep) | ("maplist", field_index, sep, kvsep)
      helpers[name] = set of variants that the helper method wraps in parentheses (`format!("({self})")`)
    """
    helpers = {}
    for m in re.finditer(r"fn (\w+)\(&self\)\s*->\s*String\s*\{\s*match self\s*\{(.*?)\n\s*\}\s*\}", expr_src, re.S):
        name, body = m.group(1), m.group(2)
        arms = re.findall(r"((?:Expr::\w+\([^)]*\)\s*\|?\s*)+)=>\s*(?:\{\s*)?format!\(\"\(\{self\}\)\"\)", body, re.S)
        rest = re.search(r"_\s*=>\s*self\.to_string\(\)", body)
        if arms and rest:
            vs = set()
            for a in arms:
                vs |= set(re.findall(r"Expr::(\w+)", a))
            helpers[name] = vs
    m = re.search(r"impl Display for Expr\s*\{", expr_src)
    if not m:
        raise EncodingError("impl Display for Expr not found")
    end = balanced(expr_src, m.end() - 1)
    body = expr_src[m.end():end]
    mm = re.search(r"match self\s*\{", body)
    mend = balanced(body, mm.end() - 1)
    arms_txt = re.sub(r"(?m)^\s*//[^\n]*\n", "", body[mm.end():mend - 1])
    arms_txt = re.sub(r"(?m)(?<=[,;{}])\s*//[^\n]*$", "", arms_txt)
    heads = [(x.start(), x.group(1), x.group(2)) for x in re.finditer(r"(?m)^\s*Expr::(\w+)\(([^)]*)\)\s*=>", arms_txt)]
    templates = {}
    for idx, (pos, variant, binds) in enumerate(heads):
        endp = heads[idx + 1][0] if idx + 1 < len(heads) else len(arms_txt)
        text = arms_txt[pos:endp]
        fields = [b.strip() for b in binds.split(",") if b.strip()]
        templates[variant] = parse_write(text, fields, helpers)
    if len(templates) < 40:
        raise EncodingError(f"only {len(templates)} Display arms recognised")
    return templates, helpers


def parse_write(text, fields, helpers):
    w = re.search(r"write!\(\s*formatter\s*,\s*\"((?:[^\"\\]|\\.)*)\"\s*(?:,(.*))?\)\s*[,}]?\s*\}?\s*,?\s*$", text.strip(), re.S)
    if not w:
        raise EncodingError(f"Display arm not understood: {text.strip()[:120]}")
    fmt = w.group(1).encode().decode("unicode_escape")
    args_txt = w.group(2) or ""
    args = []
    depth, cur = 0, []
    for c in args_txt:
        if c in "([{":
            depth += 1
        elif c in ")]}":
            depth -= 1
        if c == "," and depth == 0:
            args.append("".join(cur).strip())
            cur = []
        else:
            cur.append(c)
    if "".join(cur).strip():
        args.append("".join(cur).strip())
    pieces = []
    ai = 0
    i = 0
    lit = []

    def flush():
        if lit:
            pieces.append(("lit", "".join(lit)))
            lit.clear()
    while i < len(fmt):
        c = fmt[i]
        if c == "{" and fmt[i + 1:i + 2] == "{":
            lit.append("{")
            i += 2
        elif c == "}" and fmt[i + 1:i + 2] == "}":
            lit.append("}")
            i += 2
        elif c == "{":
            j = fmt.index("}", i)
            name = fmt[i + 1:j]
            flush()
            if name == "":
                if ai >= len(args):
                    raise EncodingError("format string has more placeholders than arguments")
                pieces.append(arg_piece(args[ai], fields, helpers))
                ai += 1
            else:
                if name not in fields:
                    raise EncodingError(f"placeholder {{{name}}} is not a field of the arm")
                pieces.append(("child", fields.index(name), None))
            i = j + 1
        else:
            lit.append(c)
            i += 1
    flush()
    return pieces


def arg_piece(arg, fields, helpers):
    arg = re.sub(r"\s+", " ", arg.strip())
    m = re.match(r"^(\w+)\.(\w+)\(\)$", arg)
    if m and m.group(1) in fields and m.group(2) in helpers:
        return ("child", fields.index(m.group(1)), m.group(2))
    m = re.match(r"^(\w+)\.iter\(\)\.map\(ToString::to_string\)\.join\(\"((?:[^\"\\]|\\.)*)\"\)$", arg)
    if m and m.group(1) in fields:
        return ("list", fields.index(m.group(1)), m.group(2))
    m = re.match(r"^(\w+) ?\.iter\(\) ?\.map\(\|\((\w+), (\w+)\)\| format!\(\"\{(\w+)\}((?:[^\"{}\\]|\\.)*)\{(\w+)\}\"\)\) ?\.join\(\"((?:[^\"\\]|\\.)*)\"\)$", arg)
    if m and m.group(1) in fields and m.group(4) == m.group(2) and m.group(6) == m.group(3):
        return ("maplist", fields.index(m.group(1)), m.group(7), m.group(5))
    raise EncodingError(f"Display argument not understood: {arg}")


# ------------------------------------------------------------------------------------------------------------
def rust_lit(tok):
    """Value of a Rust char or string literal token ('x' / "xy") with the escapes used in this code base."""
    body = tok[1:-1]
    out, i = [], 0
    while i < len(body):
        if body[i] == "\\":
            i += 1
            out.append({"n": "\n", "r": "\r", "t": "\t", "\\": "\\", '"': '"', "'": "'", "0": "\0"}.get(body[i], body[i]))
        else:
            out.append(body[i])
        i += 1
    return "".join(out)


def value_display(value_src):
    """`impl Display for Value`: for each variant the literal prefix / suffix around the payload and, for strings, the chain
    of single-character replacements applied to the payload. Returns {variant: dict(prefix, suffix, replaces=[(c, s)..])}."""
    m = re.search(r"impl Display for Value\s*\{", value_src)
    if not m:
        raise EncodingError("impl Display for Value not found")
    end = balanced(value_src, m.end() - 1)
    body = value_src[m.end():end]
    mm = re.search(r"match self\s*\{", body)
    mend = balanced(body, mm.end() - 1)
    arms_txt = body[mm.end():mend - 1]
    out = {}
    heads = [(x.start(), x.group(1)) for x in re.finditer(r"(?m)^\s*Value::(\w+)(?:\([^)]*\))?\s*=>", arms_txt)]
    for idx, (pos, variant) in enumerate(heads):
        endp = heads[idx + 1][0] if idx + 1 < len(heads) else len(arms_txt)
        text = arms_txt[pos:endp]
        if variant in ("Vec", "Map", "DateTime", "Duration"):
            continue   # the parser cannot produce these as literals
        w = re.search(r"write!\(\s*formatter\s*,\s*\"((?:[^\"\\]|\\.)*)\"\s*(?:,(.*?))?\)\s*,?\s*$", text.strip(), re.S)
        if not w:
            raise EncodingError(f"Display arm of Value::{variant} not understood: {text.strip()[:100]}")
        fmt = rust_lit('"' + w.group(1) + '"')
        arg = (w.group(2) or "").strip().rstrip(",").strip()
        ph = re.search(r"\{(\w*)\}", fmt)
        if not ph:
            out[variant] = {"prefix": fmt, "suffix": "", "payload": False, "replaces": []}
            continue
        prefix, suffix = fmt[:ph.start()], fmt[ph.end():]
        reps = []
        if ph.group(1) == "" and arg:
            mchain = re.match(r"^(\w+)((?:\s*\.replace\(\s*(?:'(?:[^'\\]|\\.)'|\"(?:[^\"\\]|\\.)*\")\s*,\s*\"(?:[^\"\\]|\\.)*\"\s*\))*)$", arg, re.S)
            if not mchain:
                raise EncodingError(f"Display of Value::{variant}: argument `{arg[:80]}` is not a chain of single-character replacements")
            for r in re.finditer(r"\.replace\(\s*('(?:[^'\\]|\\.)'|\"(?:[^\"\\]|\\.)*\")\s*,\s*(\"(?:[^\"\\]|\\.)*\")\s*\)", mchain.group(2)):
                pat, rep = rust_lit(r.group(1)), rust_lit(r.group(2))
                if len(pat) != 1:
                    raise EncodingError(f"Display of Value::{variant}: replacement pattern {pat!r} is not a single character")
                reps.append((pat, rep))
        elif ph.group(1) == "" and not arg:
            raise EncodingError(f"Display of Value::{variant}: positional placeholder without argument")
        out[variant] = {"prefix": prefix, "suffix": suffix, "payload": True, "replaces": reps}
    for need in ("String", "Int", "Float", "Decimal", "Bool", "None"):
        if need not in out:
            raise EncodingError(f"Display arm of Value::{need} not found")
    return out


# ------------------------------------------------------------------------------------------------------------
EVAL_CALL = r"(\w+)\.eval_rec\(context\)\s*\.await\?"


def arm_application(arm, field_kinds=None):
    """Split a strict arm into "evaluate the sub-expressions" and "apply the operator to the sub-results".

    Returns dict(template=<Rust expression with {0},{1}.. for the value of the i-th evaluated sub-expression, in the order of
    the pattern's bindings>, fn=<name of the function applied>, plain=<template is exactly fn(v..) in some order>,
    evaluated=[binding names in evaluation order]).
    Understood shapes:   f(a.eval_rec(context).await?, b.eval_rec(context).await?[, other bindings])
                         { let (x, y) = helper(context, a, b).await?; f(x, y[, ..]) }   (helper = any async fn taking context)
    """
    rhs = arm["text"].split("=>", 1)[1].strip().rstrip(",").strip()
    mb = re.fullmatch(r"\{\s*([^;]*?)\s*\}", rhs, re.S)
    if mb and "let " not in rhs:
        rhs = mb.group(1).strip()      # `{ expr }`
    binds = arm["binds"]
    seq = re.findall(EVAL_CALL, rhs)
    if seq and set(seq) <= set(binds) and len(set(seq)) == len(seq) and "let " not in rhs:
        tpl = rhs
        for name in seq:
            tpl = re.sub(rf"\b{name}\.eval_rec\(context\)\s*\.await\?", "{%d}" % [b for b in binds if b in seq].index(name), tpl, count=1)
        if "context" in tpl:
            raise EncodingError(f"arm still mentions the context after removing the evaluations: {rhs[:100]}")
        fn = re.match(r"\s*(\w+)\s*\(", tpl)
        plain = bool(re.fullmatch(r"\s*\w+\(\s*(\{\d\}\s*,?\s*)+\)\s*", re.sub(r"\s+", " ", tpl)))
        return {"template": tpl.replace("{", "{{").replace("}", "}}").replace("{{0}}", "{0}").replace("{{1}}", "{1}").replace("{{2}}", "{2}"),
                "fn": fn.group(1) if fn else None, "plain": plain, "evaluated": seq}
    m = re.fullmatch(r"\{\s*let\s+(\(?[\w\s,]+\)?)\s*=\s*(.*?)\.await\?\s*;\s*(.*?)\s*\}", rhs, re.S)
    if m and "context" in m.group(2) and "context" not in m.group(3):
        pat = [x.strip() for x in m.group(1).strip("() ").split(",") if x.strip()]
        args = re.findall(r"\b(\w+)\b", m.group(2).split("(", 1)[1]) if "(" in m.group(2) else []
        evaluated = [a for a in args if a in binds]
        if len(pat) != len(evaluated):
            raise EncodingError(f"arm binds {len(pat)} values from {len(evaluated)} sub-expressions: {rhs[:100]}")
        tail = m.group(3)
        tpl = tail
        # the i-th bound value stands for the i-th sub-expression handed to the helper (the arm slice decides that this is so)
        order_in_binds = [b for b in binds if b in evaluated]
        for k, v in enumerate(pat):
            idx = order_in_binds.index(evaluated[k])
            tpl = re.sub(rf"\b{v}\b", "\x00%d\x01" % idx, tpl)
        tpl = tpl.replace("{", "{{").replace("}", "}}")
        tpl = re.sub("\x00(\\d)\x01", r"{\1}", tpl)
        fn = re.match(r"\s*(\w+)\s*\(", tail)
        plain = bool(re.fullmatch(r"\s*\w+\(\s*(\w+\s*,?\s*)+\)\s*", tail)) and all(x in pat for x in re.findall(r"\b(\w+)\b", tail.split("(", 1)[1]))
        return {"template": tpl, "fn": fn.group(1) if fn else None, "plain": plain, "evaluated": evaluated}
    raise EncodingError(f"strict arm of an unknown shape: {rhs[:120]}")
