"""Extraction of facts from /repo's *current* source text (never from a cached copy).

eval_arms(src)      which function implements which Expr node kind (read from the `match self` of eval_rec)
"""
import re

from .common import EncodingError


def balanced(src, start, open_ch="{", close_ch="}"):
    """Return the index just past the brace that closes the one at `start`. Skips strings/chars/comments."""
    assert src[start] == open_ch
    depth = 0
    i = start
    n = len(src)
    while i < n:
        c = src[i]
        if c == "/" and src.startswith("//", i):
            i = src.find("\n", i)
            if i < 0:
                return n
            continue
        if c == '"':
            # raw strings r#"..."#
            j = i - 1
            hashes = 0
            while j >= 0 and src[j] == "#":
                hashes += 1
                j -= 1
            if j >= 0 and src[j] == "r":
                end = src.find('"' + "#" * hashes, i + 1)
                i = end + 1 + hashes
                continue
            i += 1
            while i < n and src[i] != '"':
                if src[i] == "\\":
                    i += 1
                i += 1
            i += 1
            continue
        if c == "'":
            # char literal or lifetime
            m = re.match(r"'(\\.|[^\\'])'", src[i:])
            if m:
                i += m.end()
                continue
        if c == open_ch:
            depth += 1
        elif c == close_ch:
            depth -= 1
            if depth == 0:
                return i + 1
        i += 1
    raise EncodingError("unbalanced braces while scanning source")


def eval_arms(src):
    """Map Expr variant -> dict(fn=<function called>, strict=<number of operands evaluated eagerly in the arm>,
    lazy=<bool: sub-expressions are passed unevaluated>, text=<arm text>)."""
    m = re.search(r"async fn eval_rec\b[^{]*\{", src)
    if not m:
        raise EncodingError("eval_rec not found in src/expr/eval/mod.rs")
    body_end = balanced(src, m.end() - 1)
    body = src[m.end():body_end]
    mm = re.search(r"match self \{", body)
    if not mm:
        raise EncodingError("eval_rec has no `match self`")
    mend = balanced(body, mm.end() - 1)
    arms_txt = body[mm.end():mend - 1]
    # split at top-level `Expr::Variant(...) =>`
    heads = [(x.start(), x.group(1), x.group(2)) for x in re.finditer(r"(?m)^\s*Expr::(\w+)\(([^)]*)\)\s*=>", arms_txt)]
    arms = {}
    for idx, (pos, variant, binds) in enumerate(heads):
        end = heads[idx + 1][0] if idx + 1 < len(heads) else len(arms_txt)
        text = arms_txt[pos:end].strip()
        rhs = text.split("=>", 1)[1].strip()
        calls = [c for c in re.findall(r"(?<![\w.:])(\w+)\(", rhs) if c not in ("Ok", "Err", "Some")]
        meth = re.findall(r"context\.(\w+)\(", rhs)
        strict = len(re.findall(r"\.eval_rec\(context\)\s*\.await\?", rhs))
        fn = calls[0] if calls else (("context." + meth[0]) if meth else None)
        arms[variant] = {"fn": fn, "strict": strict, "lazy": bool(re.search(r"\b\w+\(\s*context\s*,", rhs)),
                         "binds": [b.strip() for b in binds.split(",") if b.strip()], "text": text,
                         "post": ".map(" in rhs}
    if len(arms) < 40:
        raise EncodingError(f"only {len(arms)} eval_rec arms recognised")
    return arms
