"""C16: printing a parsed expression gives text that parses back to the same expression.

(i)  trees   - inductive step, decided by z3 on the grammar extracted from the source: the Display template of every node
               kind, with each child an opaque phrase of the child's own level, derives (uniquely) to that node with
               those children. Templates and the parenthesising helper are read from `impl Display for Expr`.
(ii) leaves  - every rendering shape of a literal / name is ONE token of the intended class (z3 on the lexer DFA).
(iii) seams  - where two pieces of a rendering touch without white space the lexer still splits them where the printer
               meant (z3: no token pattern matches across the seam).
"""
import re
import time

import z3

from . import cfgsmt, lexer, lexsmt
from .common import EncodingError
from .extract import display_templates, value_display

# levels of the source grammar on the unit chain, tightest first: discovered from the grammar (see unit_chain)
PH = "PH"

# How primitive payloads are rendered by core::fmt / rust_decimal Display (trusted; digit-level fidelity is std's contract).
LEAF_SHAPES = {
    "Int": ("C:INT", r"i-?[0-9]+"),
    "Float": ("C:FLOAT", r"f-?[0-9]+(\.[0-9]+)?|finf|f-inf"),
    "Decimal": ("C:DECIMAL", r"d-?[0-9]+(\.[0-9]+)?"),
    "String": ("C:STRING", r'"([^"\\]|\\\\|\\")*"'),
    "True": ("T:true", r"true"),
    "False": ("T:false", r"false"),
    "NoneLit": ("T:none", r"none"),
}


def string_images(reps):
    """Per-character image under a chain of single-character replacements: {char: rendered text}."""
    if isinstance(reps, dict):
        return dict(reps)      # observed images
    img = {}
    for p, _ in reps:
        t = p
        for x, y in reps:
            t = t.replace(x, y)
        img[p] = t
    return img


def install_leaf_shapes(vd):
    """Rendering shapes of literal leaves = literal prefix/suffix read from `impl Display for Value` + the payload shapes of
    core::fmt / rust_decimal (trusted) / the replacement chain for strings."""
    e = re.escape
    LEAF_SHAPES["Int"] = ("C:INT", e(vd["Int"]["prefix"]) + r"-?[0-9]+" + e(vd["Int"]["suffix"]))
    LEAF_SHAPES["Float"] = ("C:FLOAT", e(vd["Float"]["prefix"]) + r"(?:-?[0-9]+(\.[0-9]+)?|inf|-inf)" + e(vd["Float"]["suffix"]))
    LEAF_SHAPES["Decimal"] = ("C:DECIMAL", e(vd["Decimal"]["prefix"]) + r"-?[0-9]+(\.[0-9]+)?" + e(vd["Decimal"]["suffix"]))
    LEAF_SHAPES["True"] = ("T:true", e(vd["Bool"]["prefix"] + "true" + vd["Bool"]["suffix"]))
    LEAF_SHAPES["False"] = ("T:false", e(vd["Bool"]["prefix"] + "false" + vd["Bool"]["suffix"]))
    LEAF_SHAPES["NoneLit"] = ("T:none", e(vd["None"]["prefix"] + vd["None"]["suffix"]))
    img = string_images(vd["String"]["replaces"])
    dom = "".join(e(c) if c not in "]^\\-" else "\\" + c for c in img)
    plain = f"[^{dom}]" if img else r"(?:.|\n)"
    alts = "|".join([plain] + [e(t) for t in img.values()])
    LEAF_SHAPES["String"] = ("C:STRING", e(vd["String"]["prefix"]) + f"(?:{alts})*" + e(vd["String"]["suffix"]))


REF_ESCAPES = {"n": "\n", "r": "\r", "t": "\t", "\\": "\\", "'": "'", '"': '"'}


def check_string_decoding(run, pr):
    """z3 over every code point c: the rendering of the one-character string c (as the replacement chain extracted from the
    source renders it) decodes, by the reference escape table of C08, to c again."""
    t0 = time.time()
    vd = pr.vdisp["String"]
    img = string_images(vd["replaces"])
    c = z3.Int("c")
    s = z3.Solver()
    s.add(c >= 0, c < 0x110000, z3.Not(z3.And(c >= 0xD800, c <= 0xDFFF)))
    bad = []
    default_bad = z3.And(z3.And([c != ord(p) for p in img]) if img else z3.BoolVal(True), z3.Or(c == 34, c == 92))
    bad.append(default_bad)
    for p, t in img.items():
        if len(t) == 1:
            ok = t == p and t not in ('"', "\\")
        elif len(t) == 2 and t[0] == "\\":
            ok = REF_ESCAPES.get(t[1]) == p
        elif re.fullmatch(r"\\u\{[0-9a-fA-F]{1,6}\}", t):
            ok = int(t[3:-1], 16) == ord(p)
        else:
            ok = False
        if not ok:
            bad.append(c == ord(p))
    if vd["prefix"] != '"' or vd["suffix"] != '"':
        bad.append(z3.BoolVal(True))
    s.add(z3.Or(bad))
    r = s.check()
    run.solver_time_s += time.time() - t0
    wit = None
    if r == z3.sat:
        wit = chr(s.model().eval(c, model_completion=True).as_long())
    run.obligation("leaf:String:decoding", "z3-query", "fail" if wit is not None else "pass", time.time() - t0,
                   bounds={"code_points": "every Unicode scalar value", "replacement_chain": vd["replaces"]}, witnesses=[wit] if wit else [])
    return wit


def unit_chain(g, start="Expr"):
    """Nonterminals reachable from `start` through unit productions, loosest first."""
    chain = [start]
    cur = start
    by = g.by_lhs()
    while True:
        nxt = [p.rhs[0] for p in by.get(cur, []) if len(p.rhs) == 1 and p.action[0] == "pass" and p.rhs[0] in by and p.rhs[0] not in chain]
        # follow the production that continues the precedence chain (the one that is not a leaf category like Func / Ref)
        cont = [n for n in nxt if any(len(q.rhs) > 1 and n in q.rhs for q in by.get(n, []))] or nxt
        if not cont:
            break
        cur = cont[0]
        chain.append(cur)
        if cur == "Term":
            break
    return chain


def enum_fields(expr_src):
    m = re.search(r"pub enum Expr\s*\{", expr_src)
    if not m:
        raise EncodingError("enum Expr not found")
    from .extract import balanced
    end = balanced(expr_src, m.end() - 1)
    body = re.sub(r"//[^\n]*", "", expr_src[m.end():end - 1])
    out = {}
    for mm in re.finditer(r"(\w+)\(([^)]*)\)", body):
        fields = []
        from .grammar import split_top
        for t in [x.strip() for x in split_top(mm.group(2).replace("<", "(").replace(">", ")")) if x.strip()]:
            t = t.replace("(", "<").replace(")", ">")
            if t == "Box<Expr>":
                fields.append("expr")
            elif t == "String":
                fields.append("name")
            elif t == "Index":
                fields.append("index")
            elif t == "Value":
                fields.append("value")
            elif t.startswith("Vec<"):
                fields.append("list")
            elif t.startswith("BTreeMap<"):
                fields.append("map")
            else:
                raise EncodingError(f"field type {t} of Expr::{mm.group(1)} not understood")
        out[mm.group(1)] = fields
    return out


class Printer:
    def __init__(self, run, syn, helper=None):
        self.syn = syn
        src = run.read("src/expr/mod.rs")
        self.fields = enum_fields(src)
        self.lx = lexer.from_grammar(syn.g)
        self.origin = "source"
        try:
            self.templates, self.helpers = display_templates(src)
            self.vdisp = value_display(run.read("src/value/mod.rs"))
        except EncodingError as e:
            if helper is None:
                raise
            # the Display impls are not of a shape the source extractor understands: observe the real printer instead
            run.notes.append(f"Display templates observed by executing the real printer on marker expressions (source shape not understood: {e})")
            run.assumptions.append("the printer is compositional (a node's rendering = fixed text around its children's renderings, a child "
                                   "possibly wrapped in parentheses depending on its kind): observed on all (parent, position, child kind) "
                                   "combinations at depth 2 and spot-checked at depth 3, not derived from the source text")
            self.templates, self.helpers, self.vdisp = observed_templates(self.fields, helper)
            self.origin = "observed"
        install_leaf_shapes(self.vdisp)
        self.chain = unit_chain(syn.g)           # loosest .. tightest (Term)
        self.levels = list(reversed(self.chain))  # tightest first

    # -------------------------------------------------------------------------------- token view of a template
    def lit_tokens(self, text):
        toks, err = self.lx.tokenize(text)
        if err:
            raise EncodingError(f"literal piece {text!r} of a Display template does not lex")
        return [self.syn.src_term_ids[self.lx.patterns[p].name][0] for p, _ in toks]

    def cases(self, kind):
        """Yield token-level instances of the template of `kind`:
        (tokens, children) where tokens is a list of alphabet ids / ("PH", child_no) / ("LEAF", leafkind) and
        children = list of dict(no=, wrapped=bool, allowed=set of kinds or None) ; plus the expected node kind and slots."""
        tpl = self.templates[kind]
        fields = self.fields[kind]
        A = self.syn.alphabet
        ident, index = A.index("C:IDENT"), A.index("C:INDEX")
        variants = [[]]

        def extend(options):
            nonlocal variants
            variants = [v + [o] for v in variants for o in options]
        for piece in tpl:
            if piece[0] == "lit":
                extend([("lit", piece[1])])
            elif piece[0] == "child":
                f = fields[piece[1]]
                if f == "expr":
                    if piece[2]:
                        ws = self.helpers[piece[2]]
                        extend([("child", piece[1], True, frozenset(ws)), ("child", piece[1], False, frozenset(set(self.templates) - ws))])
                    else:
                        extend([("child", piece[1], False, None)])
                elif f == "name":
                    extend([("tok", piece[1], ident)])
                elif f == "index":
                    extend([("tok", piece[1], ident, "IndexField"), ("tok", piece[1], index, "IndexNum")])
                elif f == "value":
                    extend([("leaf", piece[1], lk) for lk in LEAF_SHAPES])
                else:
                    raise EncodingError(f"Display of field kind {f} through a plain placeholder")
            elif piece[0] == "list":
                opts = []
                for n in (0, 1, 2):
                    seq = []
                    for k in range(n):
                        if k:
                            seq.append(("lit", piece[2]))
                        seq.append(("child", ("item", k), False, None))
                    opts.append(("seq", seq, n))
                extend(opts)
            elif piece[0] == "maplist":
                opts = []
                for n in (0, 1, 2):
                    seq = []
                    for k in range(n):
                        if k:
                            seq.append(("lit", piece[2]))
                        seq.append(("tok", ("key", k), ident))
                        seq.append(("lit", piece[3]))
                        seq.append(("child", ("item", k), False, None))
                    opts.append(("seq", seq, n))
                extend(opts)
        for v in variants:
            flat = []
            for it in v:
                if it[0] == "seq":
                    flat += it[1]
                else:
                    flat.append(it)
            yield flat


def level_token(syn, level):
    return f"PH:{level}"


def build_ph_grammar(syn, levels):
    """source grammar + one opaque phrase token per level: L -> PH_L (a phrase that derives exactly from L and looser)."""
    from .grammar import Prod
    prods = list(syn.g.prods)
    term_ids = dict(syn.src_term_ids)
    alpha = list(syn.alphabet)
    for L in levels:
        name = level_token(syn, L)
        alpha.append(name)
        term_ids[name] = [len(alpha) - 1]
        prods.append(Prod(L, [name], ("leaf", PH, 0), text="placeholder"))
    return prods, term_ids, alpha


LEAF_KIND = {"Int": "IntDec", "Float": "Float", "Decimal": "Decimal", "String": "String", "True": "True", "False": "False", "NoneLit": "NoneLit"}


def instantiate(pr, syn, flat, alpha):
    """Token view of a flattened template instance: fixed token ids, placeholder positions, token-argument positions."""
    toks = []       # alphabet id or None (placeholder, symbolic level)
    children = []   # (child key, token position, wrapped, allowed kinds)
    tokargs = []    # (field key, token position, extra)
    for it in flat:
        if it[0] == "lit":
            toks += pr.lit_tokens(it[1])
        elif it[0] == "child":
            if it[2]:
                toks.append(alpha.index("T:("))
            children.append((it[1], len(toks), it[2], it[3]))
            toks.append(None)
            if it[2]:
                toks.append(alpha.index("T:)"))
        elif it[0] == "tok":
            tokargs.append((it[1], len(toks), it[3] if len(it) > 3 else None))
            toks.append(it[2])
        elif it[0] == "leaf":
            tokargs.append((it[1], len(toks), it[2]))
            toks.append(alpha.index(LEAF_SHAPES[it[2]][0]))
    return toks, children, tokargs


def expected_shape(pr, kind, children, tokargs):
    """(node kind, [slot spec]) the grammar-level record must show: slot spec = ("child", pos, wrapped) | ("tok", pos) | ("pair", key pos, child pos, wrapped)."""
    fields = pr.fields[kind]
    cpos = {k: (p, w) for k, p, w, _ in children}
    tpos = {k: (p, x) for k, p, x in tokargs}
    if kind == "Value":
        p, lk = tpos[0]
        return LEAF_KIND[lk], [("tok", p)]
    if kind == "Index":
        p, ik = tpos[1]
        return ik, [("child",) + cpos[0], ("tok", p)]
    if kind == "Vec":
        n = len([k for k in cpos if isinstance(k, tuple)])
        return "Vec", [("child",) + cpos[("item", i)] for i in range(n)]
    if kind == "Map":
        n = len([k for k in cpos if isinstance(k, tuple)])
        return "Map", [("pair", tpos[("key", i)][0]) + cpos[("item", i)] for i in range(n)]
    slots = []
    for i, f in enumerate(fields):
        if f == "expr":
            slots.append(("child",) + cpos[i])
        elif f == "name":
            slots.append(("tok", tpos[i][0]))
        else:
            raise EncodingError(f"unexpected field kind {f} in {kind}")
    return kind, slots


def solve_case(pr, syn, prods, term_ids, alpha, kind, flat, level_sets, levels, want_level=None, timeout_ms=60000):
    """z3: is there an assignment of child levels (within level_sets per child) for which the template instance does NOT
    derive (from `want_level`, or from the start symbol) to the expected node with the expected children?
    Returns list of counterexample level assignments (possibly empty), or None if the instance cannot be encoded."""
    toks, children, tokargs = instantiate(pr, syn, flat, alpha)
    n = len(toks)
    s = z3.Solver()
    s.set("timeout", timeout_ms)
    tv = [z3.Int(f"t{i}") for i in range(n)]
    for i, v in enumerate(toks):
        if v is not None:
            s.add(tv[i] == v)
    for (key, pos, wrapped, allowed), lv in zip(children, level_sets):
        ids = [alpha.index(level_token(syn, L)) for L in lv]
        if not ids:
            return []
        s.add(z3.Or([tv[pos] == i for i in ids]))
    kinds = cfgsmt.KindTable()
    enc = cfgsmt.encode(s, prods, syn.g.nts, term_ids, tv, n, "P", kinds, 4)
    top = want_level or "Expr"
    d = enc.D.get(top, {}).get((0, n))
    if d is None:
        ok = z3.BoolVal(False)
    else:
        rec = enc.R[top][(0, n)]
        ekind, slots = expected_shape(pr, kind, children, tokargs)
        conds = [d, rec[0] == kinds.id(ekind), rec[1] == len(slots)]

        def child_ok(slot, pos, wrapped):
            # the child is the placeholder itself, possibly inside parentheses (which only group)
            alts = []
            for k in range(0, 3):
                lo, hi = pos - k, pos + 1 + k
                if lo < 0 or hi > n:
                    break
                r2 = enc.R.get("Expr", {}).get((lo, hi))
                if r2 is None:
                    continue
                alts.append(z3.And(slot[0] == lo, slot[1] == hi, r2[0] == kinds.id(PH), r2[2][0][2] == pos))
            return z3.Or(alts) if alts else z3.BoolVal(False)
        for q, sp in enumerate(slots):
            if q >= len(rec[2]):
                conds.append(z3.BoolVal(False))
                break
            sl = rec[2][q]
            if sp[0] == "child":
                conds.append(child_ok(sl, sp[1], sp[2]))
                conds.append(sl[2] == -1)
            elif sp[0] == "tok":
                conds.append(z3.And(sl[2] == sp[1], sl[0] == -1))
            else:
                conds.append(z3.And(sl[2] == sp[1], child_ok(sl, sp[2], sp[3])))
        ok = z3.And(conds)
    s.add(z3.Not(ok))
    out = []
    while len(out) < 6:
        r = s.check()
        if r != z3.sat:
            if r == z3.unknown:
                return None
            break
        m = s.model()
        asg = []
        for (key, pos, wrapped, allowed) in children:
            tid = m.eval(tv[pos], model_completion=True).as_long()
            asg.append(alpha[tid][3:])
        out.append(asg)
        s.add(z3.Or([tv[pos] != m.eval(tv[pos], model_completion=True) for (_, pos, _, _) in children]) if children else z3.BoolVal(False))
    return out


_G = {}


def _level_task(kind):
    pr, syn, prods, term_ids, alpha, levels = _G["ctx"]
    tight = levels[0]
    best = None
    for flat in pr.cases(kind):
        nchildren = sum(1 for it in flat if it[0] == "child")
        found = None
        for L in levels:
            bad = solve_case(pr, syn, prods, term_ids, alpha, kind, flat, [[tight]] * nchildren, levels, want_level=L)
            if bad == []:
                found = L
                break
        if found is None:
            return kind, None
        if best is None or levels.index(found) > levels.index(best):
            best = found
    return kind, best


def _worker_init():
    # forked workers inherit the parent's SIGTERM handler and atexit hook (which remove the scratch directory): disarm both
    import atexit
    import signal
    for sig in (signal.SIGTERM, signal.SIGINT, signal.SIGHUP):
        signal.signal(sig, signal.SIG_DFL)
    atexit._clear()


def pool_map(fn, items):
    import multiprocessing as mp
    from .common import NCPU
    if len(items) <= 1 or NCPU <= 1:
        return [fn(x) for x in items]
    ctx = mp.get_context("fork")
    with ctx.Pool(min(NCPU, len(items)), initializer=_worker_init) as pool:
        return pool.map(fn, items, chunksize=1)


def kind_levels(pr, syn, prods, term_ids, alpha, levels):
    """Level(K): the tightest nonterminal of the unit chain from which the template of K derives (to node K) when all its
    children are atomic phrases. None if it does not derive at all."""
    _G["ctx"] = (pr, syn, prods, term_ids, alpha, levels)
    return dict(pool_map(_level_task, list(pr.templates)))


def _tree_task(kind):
    pr, syn, prods, term_ids, alpha, levels = _G["ctx"]
    lv = _G["lv"]
    t1 = time.time()
    bad_all, ncases, unknown = [], 0, False
    for flat in pr.cases(kind):
        ncases += 1
        children = [it for it in flat if it[0] == "child"]
        level_sets = []
        for it in children:
            allowed = it[3] if it[3] is not None else set(pr.templates)
            level_sets.append(sorted({lv[k] for k in allowed if lv.get(k)}, key=levels.index))
        bad = solve_case(pr, syn, prods, term_ids, alpha, kind, flat, level_sets, levels, want_level=lv[kind])
        if bad is None:
            unknown = True
            continue
        for asg in bad:
            bad_all.append((flat, asg))
    return kind, bad_all, ncases, unknown, time.time() - t1


# ---------------------------------------------------------------------------------------------------------------
def safe_text(kind, pr, child_texts, names):
    """Fully parenthesised source text that parses to a node of `kind` with the given children (used to build the
    concrete expression that replays a solver counterexample on the real parser + printer)."""
    c = [f"({t})" for t in child_texts]
    binop = {"Mult": "*", "Div": "/", "Rem": "%", "Add": "+", "Sub": "-", "Equals": "==", "NotEquals": "!=", "GreaterThan": ">",
             "GreaterThanEquals": ">=", "LessThan": "<", "LessThanEquals": "<=", "And": "and", "Or": "or", "BitAnd": "&", "BitOr": "|",
             "BitXor": "^", "Contains": "contains"}
    func = {"Some": "some", "None": "none", "Int": "int", "Float": "float", "Dec": "dec", "DateTime": "datetime", "Duration": "duration",
            "UpperCase": "uppercase", "LowerCase": "lowercase", "Trim": "trim", "Floor": "floor", "Round": "round", "Fract": "fract",
            "Year": "year", "Month": "month", "Week": "week", "Day": "day", "Hour": "hour", "Minute": "minute", "Second": "second"}
    if kind in binop:
        return f"{c[0]} {binop[kind]} {c[1]}"
    if kind in func:
        return f"{func[kind]}({child_texts[0]})"
    if kind == "Not":
        return f"!{c[0]}"
    if kind == "Neg":
        return f"-{c[0]}"
    if kind == "If":
        return f"if {c[0]} then {c[1]} else {c[2]}"
    if kind == "Function":
        return f"{names[0]}({child_texts[0]})"
    if kind == "Index":
        return f"{c[0]}.{names[0]}"
    if kind == "Vec":
        return "[" + ", ".join(child_texts) + "]"
    if kind == "Map":
        return "{" + ", ".join(f"{k}: {t}" for k, t in zip(names, child_texts)) + "}"
    if kind == "Reference":
        return names[0]
    if kind == "Symbol":
        return ":" + names[0]
    raise EncodingError(f"no safe text for {kind}")


def atom_text(kind, pr, n=[0]):
    """A smallest expression text of node kind `kind` (children are distinct references)."""
    def ref():
        n[0] += 1
        return f"x{n[0]}"
    fields = pr.fields[kind]
    if kind == "Value":
        return "i7"
    kids = [ref() for f in fields if f == "expr"]
    if kind == "Vec":
        kids = [ref()]
    if kind == "Map":
        return "{k: " + ref() + "}"
    names = [ref() for f in fields if f in ("name", "index")]
    return safe_text(kind, pr, kids, names)


def check_trees(run, pr, syn, helper, only=None):
    levels = pr.levels
    prods, term_ids, alpha = build_ph_grammar(syn, levels)
    t0 = time.time()
    lv = kind_levels(pr, syn, prods, term_ids, alpha, levels)
    run.solver_time_s += time.time() - t0
    run.extra["template_levels"] = lv
    by_level = {}
    for k, L in lv.items():
        by_level.setdefault(L, []).append(k)
    _G["lv"] = lv
    todo = [k for k in pr.templates if not (only and only not in k)]
    for kind in [k for k in todo if lv[k] is None]:
        confirm_tree(run, pr, helper, kind, None, None, "template does not derive to its own node")
        run.obligation(f"tree:{kind}", "z3-inductive-step", "fail", 0.0)
    for kind, bad_all, ncases, unknown, dt in pool_map(_tree_task, [k for k in todo if lv[k] is not None]):
        run.solver_time_s += dt
        if unknown:
            run.inconc(f"tree:{kind}", "z3 returned unknown", mandatory=True)
        seen = set()
        for flat, asg in bad_all:
            children = [it for it in flat if it[0] == "child"]
            for pos, (it, L) in enumerate(zip(children, asg)):
                allowed = it[3] if it[3] is not None else set(pr.templates)
                for ck in sorted(k for k in by_level.get(L, []) if k in allowed):
                    key = (kind, pos, L)
                    if key in seen:
                        continue
                    if confirm_tree(run, pr, helper, kind, pos, ck, f"child at position {pos} of level {L}"):
                        seen.add(key)
                        break
        if bad_all and not seen:
            run.inconc(f"tree:{kind}", f"solver counterexamples {[a for _, a in bad_all][:3]} did not reproduce on the real printer/parser", mandatory=True)
        run.obligation(f"tree:{kind}", "z3-inductive-step", "fail" if seen else ("unconfirmed" if bad_all else "pass"), dt,
                       bounds={"template_instances": ncases, "child_levels": "symbolic over all levels of the unit chain"},
                       level=lv[kind], counterexamples=len(bad_all))
    return lv


def confirm_tree(run, pr, helper, kind, pos, child_kind, why):
    """Replay: build the smallest concrete expression (parent `kind`, child of `child_kind` at `pos`), parse it with the real
    parser, print it, parse again."""
    fields = pr.fields[kind]
    nexpr = sum(1 for f in fields if f == "expr")
    if kind == "Vec":
        nexpr = 1
    kids = []
    for i in range(max(nexpr, 1) if kind in ("Vec",) else nexpr):
        kids.append(atom_text(child_kind, pr) if (pos == i and child_kind) else f"y{i}")
    names = ["nm"] if any(f in ("name", "index") for f in fields) else []
    if kind == "Map":
        text = "{k: " + (atom_text(child_kind, pr) if child_kind else "y0") + "}"
    elif kind == "Value":
        text = "i7"
    else:
        text = safe_text(kind, pr, kids, names)
    res = helper.call("roundtrip", [text])[0]
    cell = f"tree:{kind}[{pos}]<-{child_kind}"
    if res.startswith("DIFF"):
        run.finding(cell, "reparses-to-different-tree", f"{text!r} -> {res[:300]} ({why})", {"kind": "roundtrip", "text": text, "result": res})
        return True
    if res.startswith("PANIC"):
        run.finding(cell, "panic", f"{text!r} -> {res[:300]}", {"kind": "roundtrip", "text": text, "result": res})
        return True
    return False


# ---------------------------------------------------------------------------------------------------------------
def shape_lexer(rx):
    return lexer.Lexer([lexer.Pattern("SHAPE", "re", rx, 0, False)])


def _leaf_task(leaf):
    pr, syn, n_max = _G["leafctx"]
    lx = pr.lx
    sn = lexsmt.source_names(syn, lx)
    cls, rx = LEAF_SHAPES[leaf]
    t0 = time.time()
    want = syn.alphabet.index(cls)
    sh = shape_lexer(rx)
    joint = lexer.joint_classes([lx, sh])
    found = []
    for n in range(1, n_max + 1):
        s = z3.Solver()
        jc = [z3.Int(f"c{i}") for i in range(n)]
        for c in jc:
            s.add(c >= 0, c < len(joint))

        def cls_vars(k):
            out = []
            for c in jc:
                e = z3.IntVal(joint[-1][1][k])
                for j in range(len(joint) - 2, -1, -1):
                    e = z3.If(c == j, z3.IntVal(joint[j][1][k]), e)
                out.append(e)
            return out
        w = lexsmt.whole_token(s, lx, "a", cls_vars(0), sn)
        insh = lexsmt.whole_token(s, sh, "s", cls_vars(1), [0])
        s.add(insh == 0, w != want)
        while len(found) < 4 and s.check() == z3.sat:
            m = s.model()
            ids = [m.eval(c, model_completion=True).as_long() for c in jc]
            text = "".join(chr(lexer.pick_char(joint[i][0])) for i in ids)
            found.append(text)
            s.add(z3.Or([c != v for c, v in zip(jc, ids)]))
    return leaf, found, time.time() - t0


def check_leaves(run, pr, syn, helper, n_max):
    """(ii) every rendering shape of a literal is one token of the intended class."""
    wit = check_string_decoding(run, pr)
    if wit is not None:
        src = '"' + {'"': '\\"', "\\": "\\\\"}.get(wit, wit) + '"'
        res = helper.call("roundtrip", [src])[0]
        if res.startswith("DIFF") or res.startswith("PANIC"):
            run.finding(f"leaf:String:char-{ord(wit):x}", "reparses-to-different-tree", f"string literal {src!r}: {res[:200]}",
                        {"kind": "roundtrip", "text": src, "result": res})
        else:
            run.inconc("leaf:String:decoding", f"solver witness {wit!r} does not reproduce ({res[:80]})", mandatory=True)
    _G["leafctx"] = (pr, syn, n_max)
    for leaf, found, dt in pool_map(_leaf_task, list(LEAF_SHAPES)):
        run.solver_time_s += dt
        for text in found:
            confirm_leaf(run, helper, leaf, text)
        run.obligation(f"leaf:{leaf}", "z3-query", "fail" if found else "pass", dt,
                       bounds={"rendering_shape": LEAF_SHAPES[leaf][1], "code_points": n_max}, witnesses=found)


def source_for_leaf(leaf, rendering):
    """Source text whose parse is the literal that renders as `rendering` (the printer's own output is not trusted)."""
    if leaf == "Float" and "inf" in rendering:
        return "f-1e999" if "-" in rendering else "f1e999"
    return rendering


def confirm_leaf(run, helper, leaf, rendering):
    src = source_for_leaf(leaf, rendering)
    res = helper.call("roundtrip", [src])[0]
    special = "inf" if "inf" in rendering and "-" not in rendering else ("-inf" if "inf" in rendering else rendering)
    cell = f"leaf:{leaf}:{special}"
    if res.startswith("DIFF"):
        run.finding(cell, "reparses-to-different-tree", f"literal {src!r} is printed as {rendering!r}: {res[:200]}",
                    {"kind": "roundtrip", "text": src, "result": res})
    elif res.startswith("OK"):
        run.inconc(cell, f"solver witness {rendering!r} does not reproduce ({res[:100]})", mandatory=True)
    else:
        # the shape model produced a rendering that no parsed literal has
        run.notes.append(f"leaf witness {rendering!r} ({src!r}) not producible by the parser: {res[:100]}")


# ---------------------------------------------------------------------------------------------------------------
def seams(pr, syn):
    """All places where two rendered pieces touch without white space: (left class, following text pieces)."""
    A = syn.alphabet
    out = set()
    FIRST, LAST = first_last(pr, syn)
    for kind in pr.templates:
        for flat in pr.cases(kind):
            # sequence of atoms: ("t", alphabet id) | ("ws",) | ("child",) | ("leaf", leafkind)
            atoms = []
            for it in flat:
                if it[0] == "lit":
                    text = it[1]
                    i = 0
                    for m in re.finditer(r"\s+|\S+", text):
                        if m.group().isspace():
                            atoms.append(("ws",))
                        else:
                            for tid in pr.lit_tokens(m.group()):
                                atoms.append(("t", tid))
                elif it[0] == "child":
                    if it[2]:
                        atoms.append(("t", A.index("T:(")))
                        atoms.append(("child",))
                        atoms.append(("t", A.index("T:)")))
                    else:
                        atoms.append(("child",))
                elif it[0] == "tok":
                    atoms.append(("t", it[2]))
                elif it[0] == "leaf":
                    atoms.append(("leaf", it[2]))
            for i in range(len(atoms) - 1):
                a, b = atoms[i], atoms[i + 1]
                if a[0] == "ws" or b[0] == "ws":
                    continue
                lefts = LAST if a[0] == "child" else [a]
                follow = atoms[i + 1:i + 3]
                if any(x[0] == "ws" for x in follow[1:]):
                    follow = follow[:1]
                rights = [[]]
                for x in follow:
                    opts = FIRST if x[0] == "child" else [x]
                    rights = [r + [o] for r in rights for o in opts]
                for l in lefts:
                    for r in rights:
                        out.add((l, tuple(r)))
    return sorted(out, key=str)


def first_last(pr, syn):
    """token classes a rendering can start / end with (atoms as in seams)."""
    A = syn.alphabet
    first, last = set(), set()
    for kind in pr.templates:
        for flat in pr.cases(kind):
            for target, seq in ((first, flat), (last, list(reversed(flat)))):
                it = seq[0] if seq else None
                if it is None:
                    continue
                if it[0] == "lit":
                    toks = pr.lit_tokens(it[1])
                    if toks:
                        target.add(("t", toks[0] if target is first else toks[-1]))
                elif it[0] == "child":
                    if it[2]:
                        target.add(("t", A.index("T:(") if target is first else A.index("T:)")))
                elif it[0] == "tok":
                    target.add(("t", it[2]))
                elif it[0] == "leaf":
                    target.add(("leaf", it[2]))
    return sorted(first, key=str), sorted(last, key=str)


def atom_regex(pr, syn, atom):
    """Language of the texts an atom can be rendered as."""
    if atom[0] == "leaf":
        return LEAF_SHAPES[atom[1]][1]
    sym = syn.alphabet[atom[1]]
    if sym.startswith("T:"):
        return re.escape(sym[2:])
    # a token class printed from a name / index: any text the parser can have produced = any text lexed as that class
    for name in syn.g.order:
        if syn.src_term_ids[name] == [atom[1]]:
            return pr.lx.patterns[syn.g.order.index(name)].regex()
    raise EncodingError(f"no pattern for atom {atom}")


def _seam_task(left):
    pr, syn, follow, la_max, lp_max = _G["seamctx"]
    lx = pr.lx
    sn = lexsmt.source_names(syn, lx)
    unknown = False
    t0 = time.time()
    lrx = atom_regex(pr, syn, left)
    frx = "|".join("(?:" + "".join("(?:" + atom_regex(pr, syn, r) + ")" for r in rs) + ")" for rs in sorted(follow[left], key=str))
    lsh, fsh = shape_lexer(lrx), shape_lexer(frx)
    joint = lexer.joint_classes([lx, lsh, fsh])
    want = left[1] if left[0] == "t" else syn.alphabet.index(LEAF_SHAPES[left[1]][0])
    concrete = syn.alphabet[left[1]][2:] if (left[0] == "t" and syn.alphabet[left[1]].startswith("T:")) else None
    found = []
    las = [len(concrete)] if concrete else list(range(1, la_max + 1))
    nq = 0
    for la in las:
        for lp in range(1, lp_max + 1):
            n = la + lp
            s = z3.Solver()
            s.set("timeout", 120000)
            jc = [z3.Int(f"c{i}") for i in range(n)]
            for c in jc:
                s.add(c >= 0, c < len(joint))
            if concrete:
                for i, ch in enumerate(concrete):
                    cid = [k for k, (rs, _) in enumerate(joint) if any(lo <= ord(ch) <= hi for lo, hi in rs)][0]
                    s.add(jc[i] == cid)

            def cls(k, lo, hi):
                out = []
                for c in jc[lo:hi]:
                    e = z3.IntVal(joint[-1][1][k])
                    for j in range(len(joint) - 2, -1, -1):
                        e = z3.If(c == j, z3.IntVal(joint[j][1][k]), e)
                    out.append(e)
                return out
            if not concrete:
                s.add(lexsmt.whole_token(s, lsh, "l", cls(1, 0, la), [0]) == 0)
                s.add(lexsmt.whole_token(s, lx, "la", cls(0, 0, la), sn) == want)
            st = dfa_state(s, fsh, "f", cls(2, la, n))
            s.add(st != len(fsh.dstates))
            s.add(lexsmt.whole_token(s, lx, "w", cls(0, 0, n), [0] * len(sn)) != -1)
            nq += 1
            while True:
                r = s.check()
                if r == z3.sat:
                    m = s.model()
                    ids = [m.eval(c, model_completion=True).as_long() for c in jc]
                    text = "".join(chr(lexer.pick_char(joint[i][0])) for i in ids)
                    w = (text[:la], text[la:])
                    if pclass(w[1]) not in {pclass(x[1]) for x in found}:
                        found.append(w)
                    # look for a different kind of continuation as well (a known finding must not mask another one)
                    s.add(jc[la] != ids[la])
                    if len(found) >= 4:
                        break
                    continue
                if r == z3.unknown:
                    unknown = True
                break
    return left, found, nq, unknown, time.time() - t0


def check_seams(run, pr, syn, helper, la_max=3, lp_max=2):
    """(iii) for every left atom L (a token the printer writes directly before something else): is there a text a of L's
    language, lexing alone as L, and a nonempty prefix p of what can follow it, such that some token pattern matches a+p?
    Then the lexer would not split at the seam. One query per (L, |a|, |p|); the texts that can follow L are the union,
    over all seams of all templates, of the renderings of the next one or two pieces."""
    all_seams = seams(pr, syn)
    run.extra["seams"] = len(all_seams)
    follow = {}
    for left, rights in all_seams:
        follow.setdefault(left, set()).add(tuple(rights))
    _G["seamctx"] = (pr, syn, follow, la_max, lp_max)
    for left, found, nq, unknown, dt in pool_map(_seam_task, sorted(follow, key=str)):
        t0 = time.time() - dt
        if unknown:
            run.inconc(f"seam:{atom_name(syn, left)}", "z3 returned unknown", mandatory=False)
        run.solver_time_s += time.time() - t0
        desc = atom_name(syn, left)
        verdict = "pass"
        rights = sorted(follow[left], key=str)
        for w in found:
            ok = confirm_seam(run, pr, syn, helper, left, rights, w, f"{desc}|{pclass(w[1])}")
            verdict = "fail" if ok else (verdict if verdict == "fail" else "unconfirmed")
            if not ok:
                run.inconc(f"seam:{desc}|{pclass(w[1])}", f"solver witness {w} did not reproduce through the real parser/printer", mandatory=False)
        run.obligation(f"seam:{desc}", "z3-query", verdict, time.time() - t0,
                       bounds={"left_chars": la_max, "following_chars": lp_max, "queries": nq,
                               "followed_by": sorted({'+'.join(atom_name(syn, r) for r in rs) for rs in follow[left]})[:12]},
                       witnesses=found)



def pclass(p):
    """Class of a continuation: digits -> 9, letters -> a (keys known findings by the kind of seam, not the concrete text)."""
    return re.sub(r"[A-Za-z]", "a", re.sub(r"[0-9]", "9", p))[:2]


def _lens(k, m):
    if k == 0:
        return [[]]
    out = []
    for a in range(1, m + 1):
        for rest in _lens(k - 1, m):
            out.append([a] + rest)
    # the last piece may be cut: also allow completing only the first piece(s)
    return out


def dfa_state(s, lx, tag, cls_vars):
    I = z3.IntVal
    DEAD = len(lx.dstates)
    st = I(0)
    for q, ci in enumerate(cls_vars):
        e = I(DEAD)
        for si, row in enumerate(lx.delta):
            inner = None
            for cj, t in enumerate(row):
                if t >= 0:
                    inner = z3.If(ci == cj, I(t), inner if inner is not None else I(DEAD))
            if inner is not None:
                e = z3.If(st == si, inner, e)
        nst = z3.Int(f"{tag}Q_{q}")
        s.add(nst == e)
        st = nst
    return st


def atom_name(syn, atom):
    if atom[0] == "leaf":
        return "lit-" + atom[1]
    return syn.alphabet[atom[1]][2:]


def confirm_seam(run, pr, syn, helper, left, rights, witness, desc):
    """Build a source text in which the printer puts `a` directly before the following pieces, and round-trip it."""
    a, p = witness
    A = syn.alphabet
    rnames = sorted({atom_name(syn, rs[0]) for rs in rights if rs})
    rnames = ([x for x in rnames if p.startswith(x)] or rnames)
    texts = []
    # the seams that matter arise as: <operand> . <index>   and   <name> ( ...
    if rnames and rnames[0] == ".":
        idx = p[1:] if len(p) > 1 else "1"
        if not idx or not (idx.isdigit() or re.fullmatch(r"[a-zA-Z][_a-zA-Z0-9]*", idx)):
            idx = "1"
        texts.append(f"({a}).{idx}")
        texts.append(f"({a}).5")
        texts.append(f"({a}).x")
    if rnames and rnames[0] == "(":
        texts.append(f"{a}(y)")
    texts.append(a)
    res = helper.call("roundtrip", texts)
    for t, r in zip(texts, res):
        if r.startswith("DIFF") or r.startswith("PANIC"):
            run.finding(f"seam:{desc}", "reparses-to-different-tree",
                        f"{t!r}: the printer writes {a!r} directly before {p!r}, which the lexer reads as one token: {r[:200]}",
                        {"kind": "roundtrip", "text": t, "result": r})
            return True
    run.notes.append(f"seam witness {a!r}|{p!r} ({desc}) did not reproduce on {texts}: {res}")
    return False


# ---------------------------------------------------------------------------------------------------------------
def string_render_harnesses(tier):
    """Kani: Display of Value::String for every 1- and 2-character ASCII string is quote + (backslash and quote escaped,
    everything else verbatim) + quote. A counterexample counts only if the REAL round trip (print, parse, compare) fails
    natively for that string - another escaping that round-trips is not a violation."""
    from .kani import Harness
    hs = []
    for n in ((1, 2) if tier == "thorough" else (1,)):
        decl = "".join(f"let b{i} = inp.u8(); assume(b{i} < 128); " for i in range(n))
        push = "".join(f"v.push(b{i} as char); " for i in range(n))
        exp = "let mut e: [u8; %d] = [0; %d]; let mut k = 0; e[k] = 34; k += 1; " % (2 * n + 2, 2 * n + 2)
        for i in range(n):
            exp += f"if b{i} == 34 || b{i} == 92 {{ e[k] = 92; k += 1; }} e[k] = b{i}; k += 1; "
        exp += "e[k] = 34; k += 1;"
        body = f"""
        {decl}
        let mut v = String::new(); {push}
        let s = crate::value::Value::String(v).to_string();
        {exp}
        let sb = s.as_bytes();
        assert!(sb.len() == k);
        let mut i = 0; while i < k {{ assert!(sb[i] == e[i]); i += 1; }}
        std::mem::forget(s);"""
        native = f"""
        {decl}
        let mut v = String::new(); {push}
        let e0 = crate::expr::Expr::Value(crate::value::Value::String(v));
        let s = e0.to_string();
        show("string", &e0); show("rendering", &s);
        let back = crate::expr::Expr::parse(&s);
        show("reparsed", &back);
        assert!(matches!(&back, Ok(e1) if *e1 == e0));"""
        hs.append(Harness(f"string_render_len{n}", body, unwind=2 * n + 6, heavy=True, mandatory=False, native_body=native, abstract=True,
                          stubs=[], meta={"leaf": "Value::String", "domain": f"every ASCII string of {n} character(s)",
                                          "oracle": "Kani: canonical rendering; native replay: the real print -> parse round trip"}))
    return hs


# ---------------------------------------------------------------------------------------------------------------
def base_spec(kind, fields, tag="q", child_override=None, index_num=False, nitems=1):
    """JSON tree spec of a node of `kind` whose sub-expressions are marker references z<tag>0, z<tag>1, .."""
    spec = {"k": kind}
    kids = []
    k = 0
    for i, f in enumerate(fields):
        if f == "expr":
            kids.append(child_override.get(k) if child_override and k in child_override else {"k": "Reference", "n": f"z{tag}{k}"})
            k += 1
        elif f == "name":
            spec["n"] = "zn0"
        elif f == "index":
            spec["i"] = {"n": 4242} if index_num else {"f": "zn0"}
        elif f == "list":
            kids = [{"k": "Reference", "n": f"z{tag}{j}"} for j in range(nitems)]
        elif f == "map":
            spec["m"] = [[f"zk{j}", {"k": "Reference", "n": f"z{tag}{j}"}] for j in range(nitems)]
        elif f == "value":
            spec["v"] = {"t": "Int", "v": "7"}
    if kids:
        spec["c"] = kids
    return spec


def observed_templates(fields, helper):
    """Templates and wrap sets read off the real printer's output on marker expressions."""
    kinds = [k for k in fields]
    alone = {}
    specs = [base_spec(k, fields[k], tag="r") for k in kinds]
    for k, r in zip(kinds, helper.render_specs(specs)):
        alone[k] = r
    templates, helpers = {}, {}
    for K in kinds:
        fl = fields[K]
        if "list" in fl or "map" in fl:
            r0, r1, r2 = helper.render_specs([base_spec(K, fl, nitems=n) for n in (0, 1, 2)])
            if "list" in fl:
                a, b = r1.split("zq0")
                mid = r2[len(a) + 3:r2.index("zq1")]
                if r0 != a + b or not r2.endswith("zq1" + b):
                    raise EncodingError(f"list rendering of {K} not understood: {r0!r} {r1!r} {r2!r}")
                templates[K] = [("lit", a), ("list", 0, mid), ("lit", b)]
            else:
                a = r1[:r1.index("zk0")]
                kv = r1[r1.index("zk0") + 3:r1.index("zq0")]
                b = r1[r1.index("zq0") + 3:]
                mid = r2[r2.index("zq0") + 3:r2.index("zk1")]
                if r0 != a + b:
                    raise EncodingError(f"map rendering of {K} not understood: {r0!r} {r1!r} {r2!r}")
                templates[K] = [("lit", a), ("maplist", 0, mid, kv), ("lit", b)]
            continue
        variants = [False, True] if "index" in fl else [False]
        pieces_v = []
        for num in variants:
            t0 = helper.render_specs([base_spec(K, fl, index_num=num)])[0]
            pieces_v.append(t0)
        t0 = pieces_v[0]
        # split the base rendering at the markers
        marks = []
        for i, f in enumerate(fl):
            if f == "expr":
                marks.append((f"zq{sum(1 for x in fl[:i] if x == 'expr')}", ("child", i)))
            elif f in ("name", "index"):
                marks.append(("zn0", ("field", i)))
            elif f == "value":
                marks.append(("i7" if "i7" in t0 else "7", ("field", i)))
        pos = []
        for m, what in marks:
            if t0.count(m) != 1:
                raise EncodingError(f"marker {m} occurs {t0.count(m)} times in the rendering {t0!r} of {K}")
            pos.append((t0.index(m), m, what))
        pos.sort()
        pieces, cur = [], 0
        for at, m, what in pos:
            if at > cur:
                pieces.append(("lit", t0[cur:at]))
            pieces.append(("child", what[1], None))
            cur = at + len(m)
        if cur < len(t0):
            pieces.append(("lit", t0[cur:]))
        if "index" in fl and pieces_v[1] != t0.replace("zn0", "4242"):
            raise EncodingError(f"numeric index rendering of {K} differs in shape: {pieces_v[1]!r} vs {t0!r}")
        # child-kind dependent parentheses
        nexpr = sum(1 for f in fl if f == "expr")
        for p in range(nexpr):
            reqs = [base_spec(K, fl, child_override={p: base_spec(C, fields[C], tag="r")}) for C in kinds]
            outs = helper.render_specs(reqs)
            wrapped = set()
            for C, t in zip(kinds, outs):
                plain = t0.replace(f"zq{p}", alone[C])
                paren = t0.replace(f"zq{p}", "(" + alone[C] + ")")
                if t == plain:
                    continue
                if t == paren:
                    wrapped.add(C)
                else:
                    raise EncodingError(f"rendering of {K} with a {C} child at position {p} is neither the child's rendering nor that in "
                                        f"parentheses: {t!r}")
            if wrapped:
                hname = f"wrap_{K}_{p}"
                helpers[hname] = wrapped
                fi = [i for i, f in enumerate(fl) if f == "expr"][p]
                pieces = [("child", fi, hname) if (pc[0] == "child" and pc[1] == fi) else pc for pc in pieces]
        templates[K] = pieces
    # depth-3 spot check of compositionality: a node over a node over markers
    for K in kinds[:]:
        fl = fields[K]
        if sum(1 for f in fl if f == "expr") < 1 or "list" in fl or "map" in fl:
            continue
        inner = {"k": "Neg", "c": [base_spec("BitAnd", fields["BitAnd"], tag="s")]} if "Neg" in fields and "BitAnd" in fields else None
        if inner is None:
            break
        got, r_inner = helper.render_specs([base_spec(K, fl, child_override={0: inner}), inner])
        t0 = helper.render_specs([base_spec(K, fl)])[0]
        if got not in (t0.replace("zq0", r_inner), t0.replace("zq0", "(" + r_inner + ")")):
            raise EncodingError(f"printer is not compositional at depth 3 for {K}: {got!r}")
    # ---- literal leaves
    def lit(t, v):
        return {"k": "Value", "v": {"t": t, "v": v}}
    r = helper.render_specs([lit("Int", "7"), lit("Float", "2.5"), lit("Decimal", "2.5"), lit("Bool", True), lit("None", None), lit("String", "")])
    vd = {}
    for name, text, payload in (("Int", r[0], "7"), ("Float", r[1], "2.5"), ("Decimal", r[2], "2.5"), ("Bool", r[3], "true")):
        if text.count(payload) != 1:
            raise EncodingError(f"rendering {text!r} of a {name} literal does not contain its payload once")
        vd[name] = {"prefix": text[:text.index(payload)], "suffix": text[text.index(payload) + len(payload):], "payload": True, "replaces": []}
    vd["None"] = {"prefix": r[4], "suffix": "", "payload": False, "replaces": []}
    q = r[5]
    if len(q) % 2:
        raise EncodingError(f"rendering of the empty string {q!r} is not a pair of delimiters")
    pre, suf = q[:len(q) // 2], q[len(q) // 2:]
    chars = [chr(c) for c in range(1, 128)] + ["\u00e9", "\u2028", "\U0001F600", "\u0085"]
    outs = helper.render_specs([lit("String", c) for c in chars] + [lit("String", "ab\"c\\d")])
    images = {}
    for c, t in zip(chars, outs):
        if not (t.startswith(pre) and t.endswith(suf)):
            raise EncodingError(f"string rendering {t!r} lost its delimiters")
        body = t[len(pre):len(t) - len(suf)]
        if body != c:
            images[c] = body
    want = pre + "".join(images.get(c, c) for c in "ab\"c\\d") + suf
    if outs[-1] != want:
        raise EncodingError(f"string rendering is not character-wise: {outs[-1]!r} vs {want!r}")
    vd["String"] = {"prefix": pre, "suffix": suf, "payload": True, "replaces": images}
    return templates, helpers, vd
