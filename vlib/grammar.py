"""E2: extraction of the lexer and grammar from src/reval.lalrpop (on every run) and of the constructor table
from src/expr/mod.rs.  Nothing here is cached or hand-transcribed: the only hand-written artefact is the
REFERENCE table in vlib/refgrammar.py, which is written from the property statement.

Grammar model
    terminals     name -> ("lit", text) | ("re", regex)      (+ skip patterns, + priority tier)
    productions   list of Prod(lhs, rhs=[Sym], action=Action)
    Action        ("node", kind, [arg ...])     arg = ("sub", rhs_pos) | ("tok", rhs_pos)
                  ("pass", rhs_pos)             value of that symbol
                  ("leaf", kind, rhs_pos)       literal leaf made from that token
                  ("pair", key_pos, val_pos)    (key token, expression)
                  ("list", [("elems", pos) | ("item", pos) ...])   concatenation
"""
import re

from .common import EncodingError
from .extract import balanced


class Prod:
    def __init__(self, lhs, rhs, action, fallible=False, text=""):
        self.lhs, self.rhs, self.action, self.fallible, self.text = lhs, rhs, action, fallible, text

    def __repr__(self):
        return f"{self.lhs} -> {' '.join(self.rhs)}  {self.action}"


class Grammar:
    def __init__(self):
        self.terminals = {}      # NAME -> (kind, text, tier)
        self.order = []          # terminal names in source order (pattern index)
        self.skips = []          # (regex, tier) skip patterns
        self.prods = []
        self.starts = []         # pub nonterminals
        self.nts = []

    def by_lhs(self):
        d = {}
        for p in self.prods:
            d.setdefault(p.lhs, []).append(p)
        return d


def _unescape_rust_str(s):
    out = []
    i = 0
    while i < len(s):
        c = s[i]
        if c == "\\":
            i += 1
            e = s[i]
            out.append({"n": "\n", "r": "\r", "t": "\t", "\\": "\\", '"': '"', "'": "'", "0": "\0"}.get(e, e))
        else:
            out.append(c)
        i += 1
    return "".join(out)


def parse_match_block(src, g):
    m = re.search(r"\bmatch\s*\{", src)
    if not m:
        raise EncodingError("no `match { .. }` lexer block in reval.lalrpop")
    tier = 0
    pos = m.end() - 1
    while True:
        end = balanced(src, pos)
        block = src[pos + 1:end - 1]
        for line in block.split("\n"):
            line = line.split("//")[0].strip() if not re.search(r'"[^"]*//', line) else line.strip()
            if not line:
                continue
            mm = re.match(r'(r#"(?P<raw1>.*?)"#|r"(?P<raw2>[^"]*)"|"(?P<lit>(?:[^"\\]|\\.)*)")\s*=>\s*(?P<rhs>\{\s*\}|\w+)\s*,?', line)
            if not mm:
                raise EncodingError(f"lexer line not understood: {line!r}")
            rhs = mm.group("rhs")
            if mm.group("lit") is not None:
                kind, text = "lit", _unescape_rust_str(mm.group("lit"))
            else:
                kind, text = "re", mm.group("raw1") if mm.group("raw1") is not None else mm.group("raw2")
            if rhs.startswith("{"):
                if kind != "re":
                    kind, text = "re", re.escape(text)
                g.skips.append((text, tier))
            else:
                if rhs in g.terminals:
                    raise EncodingError(f"terminal {rhs} defined twice")
                g.terminals[rhs] = (kind, text, tier)
                g.order.append(rhs)
        rest = src[end:]
        me = re.match(r"\s*else\s*\{", rest)
        if not me:
            return end
        pos = end + me.end() - 1
        tier += 1


CTOR_RE = re.compile(r"pub fn (\w+)\(([^)]*)\)\s*->\s*Self\s*\{\s*Expr::(\w+)\((.*?)\)\s*\}", re.S)


def parse_ctors(expr_src):
    """Expr::ctor(params) -> (Variant, [param index for each variant field]) read from `impl Expr` in src/expr/mod.rs."""
    ctors = {}
    for m in CTOR_RE.finditer(expr_src):
        name, params, variant, fields = m.group(1), m.group(2), m.group(3), m.group(4)
        pnames = [p.split(":")[0].strip() for p in params.split(",") if p.strip()]
        idx = []
        ok = True
        for f in split_top(fields):
            f = f.strip()
            mm = re.match(r"^(?:Box::new\()?\s*(\w+)(?:\.into\(\)|\.to_string\(\))?\s*\)?$", f)
            if not mm or mm.group(1) not in pnames:
                ok = False
                break
            idx.append(pnames.index(mm.group(1)))
        if ok and sorted(idx) == list(range(len(pnames))):
            ctors[name] = (variant, idx)
    # constructors whose body is not of the plain form (or that are missing) fall back to the public-API table;
    # C07's Kani constructor harnesses decide whether the real code honours that table.
    from .refgrammar import REF_CTORS, REF_NAMED_CTORS
    for name, (variant, arity) in REF_CTORS.items():
        ctors.setdefault(name, (variant, list(range(arity))))
    for name, (variant, params) in REF_NAMED_CTORS.items():
        ctors.setdefault(name, (variant, list(range(len(params)))))
    return ctors


def split_top(s):
    parts, depth, cur = [], 0, []
    for c in s:
        if c in "([{":
            depth += 1
        elif c in ")]}":
            depth -= 1
        if c == "," and depth == 0:
            parts.append("".join(cur))
            cur = []
        else:
            cur.append(c)
    if "".join(cur).strip():
        parts.append("".join(cur))
    return parts


LEAF_HELPERS = {"parse_string_literal": "String", "parse_int_value": "IntDec", "parse_hex_int_value": "IntHex",
                "parse_oct_int_value": "IntOct", "parse_bin_int_value": "IntBin", "parse_float_value": "Float",
                "parse_decimal_value": "Decimal"}


def parse_grammar(src, ctors):
    g = Grammar()
    end = parse_match_block(src, g)
    body = src[end:]
    # strip // comments outside strings (the grammar part has no // inside strings)
    body = re.sub(r"//[^\n]*", "", body)
    helper_n = [0]
    pos = 0
    rule_re = re.compile(r"(pub\s+)?(\w+)(<[\w\s,]+>)?\s*:\s*([^=;{}]+?)\s*=(?!>)\s*", re.S)
    g.macros = {}
    g.pending = []
    g.ctors = ctors
    while True:
        m = rule_re.search(body, pos)
        if not m:
            break
        is_pub, lhs, params = bool(m.group(1)), m.group(2), m.group(3)
        p = m.end()
        if body[p] == "{":
            e = balanced(body, p)
            alts_txt = body[p + 1:e - 1]
            alts = [a.strip() for a in split_top(alts_txt) if a.strip()]
            pos = e
            mm = re.match(r"\s*;", body[pos:])
            if mm:
                pos += mm.end()
        else:
            e = body.index(";", p)
            # `;` may occur inside the action only in strings: none in this grammar
            alts = [body[p:e].strip()]
            pos = e + 1
        if params:
            # lalrpop macro: instantiated at each use site by substituting the parameters
            g.macros[lhs] = ([x.strip() for x in params.strip("<>").split(",")], alts)
            continue
        g.nts.append(lhs)
        if is_pub:
            g.starts.append(lhs)
        for alt in alts:
            parse_alt(g, lhs, alt, ctors, helper_n)
    # macro instances requested while parsing (may request further instances)
    done = set()
    while g.pending:
        name, mname, args = g.pending.pop()
        if name in done:
            continue
        done.add(name)
        params, alts = g.macros[mname]
        if len(params) != len(args):
            raise EncodingError(f"macro {mname} used with {len(args)} arguments")
        g.nts.append(name)
        for alt in alts:
            inst = alt
            for prm, arg in zip(params, args):
                inst = re.sub(rf"\b{prm}\b", arg, inst)
            parse_alt(g, name, inst, ctors, helper_n)
    return g


def parse_alt(g, lhs, alt, ctors, helper_n):
    fallible = False
    if "=>?" in alt:
        syms_txt, action = alt.split("=>?", 1)
        fallible = True
    elif "=>" in alt:
        syms_txt, action = alt.split("=>", 1)
    else:
        syms_txt, action = alt, None
    syms, names, selected = [], [], []
    for tok in tokenize_syms(syms_txt.strip()):
        name, sym, sel = parse_sym(g, tok, helper_n)
        syms.append(sym)
        names.append(name)
        selected.append(sel)
    act = parse_action(g, lhs, syms, names, selected, action.strip() if action else None, ctors, alt)
    g.prods.append(Prod(lhs, syms, act, fallible, alt))


def tokenize_syms(s):
    out, i = [], 0
    while i < len(s):
        if s[i].isspace():
            i += 1
            continue
        if s[i] == "<":
            depth, j = 0, i
            while j < len(s):
                if s[j] == "<":
                    depth += 1
                elif s[j] == ">":
                    depth -= 1
                    if depth == 0:
                        break
                j += 1
            j += 1
            while j < len(s) and s[j] in "*?+":
                j += 1
            out.append(s[i:j])
            i = j
        elif s[i] == "(":
            j = balanced(s, i, "(", ")")
            while j < len(s) and s[j] in "*?+":
                j += 1
            out.append(s[i:j])
            i = j
        else:
            j = i
            while j < len(s) and not s[j].isspace():
                j += 1
            out.append(s[i:j])
            i = j
    return out


def parse_sym(g, tok, helper_n):
    """returns (binding name or None, symbol name, selected?)"""
    name, sel = None, False
    if tok.startswith("<") and tok.endswith(">"):
        inner = tok[1:-1].strip()
        sel = True
        m = re.match(r"^(\w+)\s*:\s*(.*)$", inner, re.S)
        if m:
            name, inner = m.group(1), m.group(2).strip()
        return name, expand(g, inner, helper_n), sel
    return None, expand(g, tok, helper_n), False


def expand(g, s, helper_n):
    s = s.strip()
    m = re.match(r"^\((.*)\)\*$", s, re.S)
    if m:
        inner = tokenize_syms(m.group(1).strip())
        helper_n[0] += 1
        h = f"__Star{helper_n[0]}"
        syms, sel_pos = [], None
        for k, t in enumerate(inner):
            nm, sy, sel = parse_sym(g, t, helper_n)
            syms.append(sy)
            if sel:
                if sel_pos is not None:
                    raise EncodingError(f"macro with two selected symbols: {s}")
                sel_pos = k
        if sel_pos is None:
            raise EncodingError(f"star macro without a selected symbol: {s}")
        g.nts.append(h)
        g.prods.append(Prod(h, [], ("list", []), text="(eps)"))
        g.prods.append(Prod(h, [h] + syms, ("list", [("elems", 0), ("item", 1 + sel_pos)]), text=s))
        return h
    m = re.match(r"^(\w+)\*$", s)
    if m:
        # bare `X*`: zero or more X, value = the list of X
        return expand(g, f"(<{m.group(1)}>)*", helper_n)
    m = re.match(r"^(\w+)\?$", s)
    if m:
        helper_n[0] += 1
        h = f"__Opt{helper_n[0]}"
        g.nts.append(h)
        g.prods.append(Prod(h, [], ("list", []), text="(eps)"))
        g.prods.append(Prod(h, [m.group(1)], ("list", [("item", 0)]), text=s))
        return h
    if re.match(r"^\w+$", s):
        return s
    m = re.match(r"^(\w+)<(.+)>$", s, re.S)
    if m and m.group(1) in getattr(g, "macros", {}):
        args = [a.strip() for a in split_top(m.group(2).replace("<", "(").replace(">", ")"))]
        args = [a.replace("(", "<").replace(")", ">") for a in args]
        name = "__M_" + re.sub(r"\W+", "_", s)
        g.pending.append((name, m.group(1), args))
        return name
    raise EncodingError(f"grammar symbol not understood: {s!r}")


def parse_action(g, lhs, syms, names, selected, action, ctors, alt):
    byname = {n: i for i, n in enumerate(names) if n}
    sel = [i for i, s in enumerate(selected) if s]

    def arg_of(txt):
        txt = txt.strip()
        if txt == "<>":
            cand = sel if sel else list(range(len(syms)))
            if len(cand) != 1:
                raise EncodingError(f"`<>` with {len(cand)} candidate symbols in: {alt}")
            return cand[0]
        m = re.match(r"^(\w+)(?:\.to_string\(\))?$", txt)
        if m and m.group(1) in byname:
            return byname[m.group(1)]
        return None

    def kind_of_pos(i):
        return "tok" if syms[i] in g.terminals else "sub"

    if action is None:
        cand = sel if sel else list(range(len(syms)))
        if len(cand) != 1:
            # e.g. LPAREN <Expr> RPAREN handled by sel; Func / Ref alternatives are single symbols
            raise EncodingError(f"alternative without action and without a unique value: {alt}")
        i = cand[0]
        if syms[i] in g.terminals:
            raise EncodingError(f"bare terminal alternative: {alt}")
        return ("pass", i)
    a = action.strip()
    # Ok(helper(s)?) literal leaves
    m = re.match(r"^Ok\((\w+)\((\w+|<>)\)\?\)$", a)
    if m and m.group(1) in LEAF_HELPERS and arg_of(m.group(2)) is not None:
        return ("leaf", LEAF_HELPERS[m.group(1)], arg_of(m.group(2)))
    m = re.match(r"^Ok\(RuleBuilder::parse\((\w+),\s*(\w+)\)\?\)$", a)
    if m and arg_of(m.group(1)) is not None and arg_of(m.group(2)) is not None:
        return ("node", "Rule", [("elems", arg_of(m.group(1))), ("sub", arg_of(m.group(2)))])
    m = re.match(r"^Value::Bool\((true|false)\)$", a)
    if m:
        return ("leaf", "True" if m.group(1) == "true" else "False", 0)
    if a == "Value::None":
        return ("leaf", "NoneLit", 0)
    m = re.match(r"^Expr::Value\((.*)\)$", a)
    if m and arg_of(m.group(1)) is not None:
        return ("pass", arg_of(m.group(1)))
    m = re.match(r"^\((\w+)\.to_string\(\),\s*(\w+)\)$", a)
    if m and arg_of(m.group(1)) is not None and arg_of(m.group(2)) is not None:
        return ("pair", arg_of(m.group(1)), arg_of(m.group(2)))
    m = re.match(r"^Expr::(Vec|Map)\((\w+)\.into_iter\(\)\.chain\((\w+)\)\.collect\(\)\)$", a)
    if m and arg_of(m.group(2)) is not None and arg_of(m.group(3)) is not None:
        return ("node", m.group(1), [("elems", arg_of(m.group(2))), ("elems", arg_of(m.group(3)))])
    # a list built elsewhere (e.g. by a macro): Expr::Vec(<>) / Expr::Map(<>.into_iter().collect())
    m = re.match(r"^Expr::(Vec|Map)\((\w+|<>)(?:\.into_iter\(\)\.collect\(\))?\)$", a)
    if m and arg_of(m.group(2)) is not None:
        return ("node", m.group(1), [("elems", arg_of(m.group(2)))])
    # list concatenation: init.into_iter().chain(last).collect()
    m = re.match(r"^(\w+)\.into_iter\(\)\.chain\((\w+)\)\.collect\(\)$", a)
    if m and arg_of(m.group(1)) is not None and arg_of(m.group(2)) is not None:
        return ("list", [("elems", arg_of(m.group(1))), ("elems", arg_of(m.group(2)))])
    # multi-statement action converting a numeric index
    mu = re.search(r"usize::from_str\((\w+)\)", a)
    mi = re.search(r"Expr::index\((\w+),\s*Index::from\(", a)
    if a.startswith("{") and mu and mi and arg_of(mu.group(1)) is not None and arg_of(mi.group(1)) is not None:
        return ("node", "IndexNum", [("sub", arg_of(mi.group(1))), ("tok", arg_of(mu.group(1)))])
    # index: Expr::index(l, Index::from(r)) / Ok(Expr::index(l, Index::from(usize::from_str(r)...?)))
    m = re.match(r"^(?:Ok\()?Expr::index\((\w+),\s*Index::from\((.*)\)\)\)?$", a, re.S)
    if m and arg_of(m.group(1)) is not None:
        inner = m.group(2).strip()
        mi = re.match(r"^(\w+)$", inner)
        mu = re.match(r"^usize::from_str\((\w+)\)", inner)
        if mi and arg_of(mi.group(1)) is not None:
            return ("node", "IndexField", [("sub", arg_of(m.group(1))), ("tok", arg_of(mi.group(1)))])
        if mu and arg_of(mu.group(1)) is not None:
            return ("node", "IndexNum", [("sub", arg_of(m.group(1))), ("tok", arg_of(mu.group(1)))])
    m = re.match(r"^Expr::(\w+)\((.*)\)$", a, re.S)
    if m and m.group(1) in ctors:
        variant, idx = ctors[m.group(1)]
        args = [arg_of(x) for x in split_top(m.group(2))]
        if None in args or len(args) != len(idx):
            raise EncodingError(f"constructor arguments not understood in: {alt}")
        fields = [args[i] for i in idx]   # variant field order
        return ("node", variant, [(kind_of_pos(i), i) for i in fields])
    raise EncodingError(f"grammar action not understood: `{a}` in `{alt}`")
