"""Operator cells: one Kani harness per (Expr node kind, operand tag tuple), payloads symbolic.

The REFERENCE OPERATOR TABLE below is written from the property statements (C01-C04), not from the code:
it says, per node kind and operand tags, what the result must be.  Which Rust function implements a node kind
(and in which order it receives its operands) is read from the `match self` of eval_rec on every run.
"""
from .common import EncodingError
from .extract import arm_application, eval_arms
from .kani import Harness
from .rustgen import BT, TAGS, Sym

EVAL = "src/expr/eval/mod.rs"

UNARY = ["Not", "Neg", "Some", "None", "Int", "Float", "Dec", "DateTime", "Duration", "UpperCase", "LowerCase",
         "Trim", "Round", "Floor", "Fract", "Year", "Month", "Week", "Day", "Hour", "Minute", "Second"]
BINARY = ["Mult", "Div", "Rem", "Add", "Sub", "GreaterThan", "GreaterThanEquals", "LessThan", "LessThanEquals",
          "BitAnd", "BitOr", "BitXor", "Contains"]
ORDER = {"GreaterThan": ">", "GreaterThanEquals": ">=", "LessThan": "<", "LessThanEquals": "<="}
ARITH = {"Add": "add", "Sub": "sub", "Mult": "mul", "Div": "div", "Rem": "rem"}
BITS = {"BitAnd": "&", "BitOr": "|", "BitXor": "^"}
UNIT_SECS = {"Week": 604800, "Day": 86400, "Hour": 3600, "Minute": 60, "Second": 1}
DUR_GET = {"Week": "num_weeks", "Day": "num_days", "Hour": "num_hours", "Minute": "num_minutes", "Second": "num_seconds"}

PREAMBLE = r"""
    use chrono::{DateTime, TimeDelta, Utc, Datelike, Timelike};
    use rust_decimal::Decimal;
    type R = Result<Value>;
    fn ok_int(r: &R, v: i128) -> bool { matches!(r, Ok(Value::Int(x)) if *x == v) }
    fn ok_float(r: &R, v: f64) -> bool { matches!(r, Ok(Value::Float(x)) if same_f64(*x, v)) }
    fn ok_bool(r: &R, v: bool) -> bool { matches!(r, Ok(Value::Bool(x)) if *x == v) }
    fn ok_none(r: &R) -> bool { matches!(r, Ok(Value::None)) }
    fn ok_dec(r: &R, v: &Decimal) -> bool { matches!(r, Ok(Value::Decimal(x)) if same_dec(x, v)) }
    fn ok_dt(r: &R, v: &DateTime<Utc>) -> bool { matches!(r, Ok(Value::DateTime(x)) if x == v) }
    fn ok_dur(r: &R, v: &TimeDelta) -> bool { matches!(r, Ok(Value::Duration(x)) if x == v) }
    fn ok_empty_str(r: &R) -> bool { matches!(r, Ok(Value::String(x)) if x.is_empty()) }
    fn err_type(r: &R) -> bool { matches!(r, Err(Error::InvalidType)) }
    fn err_div0(r: &R) -> bool { matches!(r, Err(Error::DivisionByZero)) }
    // "out of the representable range": the statement's table has two error classes for it (invalid cast, out of bounds);
    // which of the two a function picks is not part of the property
    fn err_oob(r: &R) -> bool { matches!(r, Err(Error::ValueOutOfBounds(..)) | Err(Error::InvalidCast(..))) }
    fn err_range(r: &R) -> bool { err_oob(r) }
    // a value that cannot be converted at all (not a number / date): invalid cast
    fn err_cast(r: &R) -> bool { matches!(r, Err(Error::InvalidCast(..))) }
    fn is_err(r: &R) -> bool { r.is_err() }
    // equality helpers may return Result<bool> or Result<Value>
    trait BoolOut { fn okb(&self, b: bool) -> bool; }
    impl BoolOut for Result<bool> { fn okb(&self, b: bool) -> bool { matches!(self, Ok(x) if *x == b) } }
    impl BoolOut for Result<Value> { fn okb(&self, b: bool) -> bool { matches!(self, Ok(Value::Bool(x)) if *x == b) } }

    // ---- recorders standing in for dependency operations (rust_decimal, chrono): they log which operation
    // was applied to which operands and return a value drawn by the harness beforehand.
    static mut REC_N: u32 = 0;
    static mut REC_KIND: u32 = 0;
    static mut REC_DA: Option<Decimal> = None;
    static mut REC_DB: Option<Decimal> = None;
    static mut RET_SOME: bool = false;
    static mut RET_DEC: Option<Decimal> = None;
    static mut RET_ORD: i8 = 0;
    fn rec2(kind: u32, a: Decimal, b: Decimal) { unsafe { REC_N += 1; REC_KIND = kind; REC_DA = Some(a); REC_DB = Some(b); } }
    fn ret_opt() -> Option<Decimal> { unsafe { if RET_SOME { RET_DEC } else { None } } }
    fn st_dec_checked_add(a: Decimal, b: Decimal) -> Option<Decimal> { rec2(1, a, b); ret_opt() }
    fn st_dec_checked_sub(a: Decimal, b: Decimal) -> Option<Decimal> { rec2(2, a, b); ret_opt() }
    fn st_dec_checked_mul(a: Decimal, b: Decimal) -> Option<Decimal> { rec2(3, a, b); ret_opt() }
    fn st_dec_checked_div(a: Decimal, b: Decimal) -> Option<Decimal> { rec2(4, a, b); ret_opt() }
    fn st_dec_checked_rem(a: Decimal, b: Decimal) -> Option<Decimal> { rec2(5, a, b); ret_opt() }
    fn st_dec_add(a: Decimal, b: Decimal) -> Decimal { rec2(11, a, b); unsafe { RET_DEC.unwrap() } }
    fn st_dec_sub(a: Decimal, b: Decimal) -> Decimal { rec2(12, a, b); unsafe { RET_DEC.unwrap() } }
    fn st_dec_mul(a: Decimal, b: Decimal) -> Decimal { rec2(13, a, b); unsafe { RET_DEC.unwrap() } }
    fn st_dec_div(a: Decimal, b: Decimal) -> Decimal { rec2(14, a, b); unsafe { RET_DEC.unwrap() } }
    fn st_dec_rem(a: Decimal, b: Decimal) -> Decimal { rec2(15, a, b); unsafe { RET_DEC.unwrap() } }
    fn st_dec_cmp(a: &Decimal, b: &Decimal) -> core::cmp::Ordering {
        rec2(20, *a, *b);
        unsafe { if RET_ORD < 0 { core::cmp::Ordering::Less } else if RET_ORD == 0 { core::cmp::Ordering::Equal } else { core::cmp::Ordering::Greater } }
    }
    fn st_dec_round(a: &Decimal) -> Decimal { rec2(30, *a, *a); unsafe { RET_DEC.unwrap() } }
    fn st_dec_floor(a: &Decimal) -> Decimal { rec2(31, *a, *a); unsafe { RET_DEC.unwrap() } }
    fn st_dec_fract(a: &Decimal) -> Decimal { rec2(32, *a, *a); unsafe { RET_DEC.unwrap() } }
    fn rec_is(kind: u32, a: &Decimal, b: &Decimal) -> bool {
        unsafe { REC_N == 1 && REC_KIND == kind && matches!(&REC_DA, Some(x) if same_dec(x, a)) && matches!(&REC_DB, Some(x) if same_dec(x, b)) }
    }
    static mut REC_NA: Option<chrono::NaiveDateTime> = None;
    static mut REC_NB: Option<chrono::NaiveDateTime> = None;
    static mut REC_TD: Option<TimeDelta> = None;
    static mut RET_NDT: Option<chrono::NaiveDateTime> = None;
    static mut RET_TD: Option<TimeDelta> = None;
    fn st_ndt_checked_add(a: chrono::NaiveDateTime, d: TimeDelta) -> Option<chrono::NaiveDateTime> {
        unsafe { REC_N += 1; REC_KIND = 40; REC_NA = Some(a); REC_TD = Some(d); if RET_SOME { RET_NDT } else { None } }
    }
    fn st_ndt_checked_sub(a: chrono::NaiveDateTime, d: TimeDelta) -> Option<chrono::NaiveDateTime> {
        unsafe { REC_N += 1; REC_KIND = 41; REC_NA = Some(a); REC_TD = Some(d); if RET_SOME { RET_NDT } else { None } }
    }
    fn st_ndt_since(a: chrono::NaiveDateTime, b: chrono::NaiveDateTime) -> TimeDelta {
        unsafe { REC_N += 1; REC_KIND = 42; REC_NA = Some(a); REC_NB = Some(b); RET_TD.unwrap() }
    }
    static mut REC_I64: i64 = 0;
    static mut REC_U32: u32 = 0;
    fn st_from_ts(secs: i64, nsecs: u32) -> Option<DateTime<Utc>> {
        unsafe { REC_N += 1; REC_KIND = 60; REC_I64 = secs; REC_U32 = nsecs;
                 if RET_SOME { RET_NDT.map(|n| DateTime::<Utc>::from_naive_utc_and_offset(n, Utc)) } else { None } }
    }
    fn rec_ts(secs: i64) -> bool { unsafe { REC_N == 1 && REC_KIND == 60 && REC_I64 == secs && REC_U32 == 0 } }
    static mut RET_I64: i64 = 0;
    fn rec_td1(kind: u32, d: &TimeDelta) -> i64 { unsafe { REC_N += 1; REC_KIND = kind; REC_TD = Some(*d); RET_I64 } }
    fn st_td_num_weeks(d: &TimeDelta) -> i64 { rec_td1(50, d) }
    fn st_td_num_days(d: &TimeDelta) -> i64 { rec_td1(51, d) }
    fn st_td_num_hours(d: &TimeDelta) -> i64 { rec_td1(52, d) }
    fn st_td_num_minutes(d: &TimeDelta) -> i64 { rec_td1(53, d) }
    fn st_td_num_seconds(d: &TimeDelta) -> i64 { rec_td1(54, d) }
    fn rec_td(kind: u32, d: &TimeDelta) -> bool { unsafe { REC_N == 1 && REC_KIND == kind && REC_TD == Some(*d) } }
    fn rec_dt(kind: u32, a: &DateTime<Utc>, d: &TimeDelta) -> bool {
        unsafe { REC_N == 1 && REC_KIND == kind && REC_NA == Some(a.naive_utc()) && REC_TD == Some(*d) }
    }
    fn rec_dtdt(a: &DateTime<Utc>, b: &DateTime<Utc>) -> bool {
        unsafe { REC_N == 1 && REC_KIND == 42 && REC_NA == Some(a.naive_utc()) && REC_NB == Some(b.naive_utc()) }
    }
    fn rec_kind() -> u32 { unsafe { REC_KIND } }
    fn rec_n() -> u32 { unsafe { REC_N } }
"""

DEC_STUBS = {
    "Add": [("rust_decimal::Decimal::checked_add", "st_dec_checked_add"),
            ("<rust_decimal::Decimal as core::ops::Add<rust_decimal::Decimal>>::add", "st_dec_add")],
    "Sub": [("rust_decimal::Decimal::checked_sub", "st_dec_checked_sub"),
            ("<rust_decimal::Decimal as core::ops::Sub<rust_decimal::Decimal>>::sub", "st_dec_sub")],
    "Mult": [("rust_decimal::Decimal::checked_mul", "st_dec_checked_mul"),
             ("<rust_decimal::Decimal as core::ops::Mul<rust_decimal::Decimal>>::mul", "st_dec_mul")],
    "Div": [("rust_decimal::Decimal::checked_div", "st_dec_checked_div"),
            ("<rust_decimal::Decimal as core::ops::Div<rust_decimal::Decimal>>::div", "st_dec_div")],
    "Rem": [("rust_decimal::Decimal::checked_rem", "st_dec_checked_rem"),
            ("<rust_decimal::Decimal as core::ops::Rem<rust_decimal::Decimal>>::rem", "st_dec_rem")],
}
DEC_KIND = {"Add": 1, "Sub": 2, "Mult": 3, "Div": 4, "Rem": 5}
DEC_ALL_ARITH_STUBS = [s for v in DEC_STUBS.values() for s in v]
CMP_STUB = [("rust_decimal::ops::cmp_impl", "st_dec_cmp")]
ROUND_STUBS = [("rust_decimal::Decimal::round", "st_dec_round"), ("rust_decimal::Decimal::floor", "st_dec_floor"),
               ("rust_decimal::Decimal::fract", "st_dec_fract")]
ROUND_KIND = {"Round": 30, "Floor": 31, "Fract": 32}

TD_STUBS = [(f"chrono::TimeDelta::{g}", f"st_td_{g}") for g in ("num_weeks", "num_days", "num_hours", "num_minutes", "num_seconds")]
PRE_DRAW_TD = """let ret_i64 = inp.i64(); unsafe { RET_I64 = ret_i64; REC_N = 0; }"""
CHRONO_STUBS = [("chrono::NaiveDateTime::checked_add_signed", "st_ndt_checked_add"),
                ("chrono::NaiveDateTime::checked_sub_signed", "st_ndt_checked_sub"),
                ("chrono::NaiveDateTime::signed_duration_since", "st_ndt_since")]
PRE_DRAW_DT = """let ret_dt = any_datetime(inp); let ret_dur = any_duration(inp); let ret_some = inp.bool();
        unsafe { RET_NDT = Some(ret_dt.naive_utc()); RET_TD = Some(ret_dur); RET_SOME = ret_some; REC_N = 0; }"""
PRE_DRAW = """let ret_dec = any_decimal(inp); let ret_some = inp.bool(); let ret_ord = inp.i8();
        unsafe { RET_DEC = Some(ret_dec); RET_SOME = ret_some; RET_ORD = ret_ord; REC_N = 0; }"""


class Spec:
    """Expected behaviour of one cell.

    exp     Rust bool over `&r`, payload vars a/b (and a_y, a_secs, ... for dates): must hold under Kani and natively
    kexp    if set: Kani-only expectation (uses recorders); `exp` is then the native expectation (real dependency)
    stubs   recorder stubs used by kexp
    c01     range oracle (subset of exp that C01 needs beyond panic freedom); None = panic freedom only
    covers  [(cond, label)] vacuity witnesses
    dec     'full' | 'scale0' operand domain for Decimal operands
    cls     'supported' | 'none' | 'unsupported'
    """

    def __init__(self, exp, cls="supported", kexp=None, stubs=(), c01=None, covers=(), dec="full", unwind=2,
                 heavy=False, note=None, quick=True, pre="", c01r=None):
        self.c01r = c01r
        self.exp, self.cls, self.kexp, self.stubs = exp, cls, kexp, list(stubs)
        self.c01, self.covers, self.dec, self.unwind, self.heavy = c01, list(covers), dec, unwind, heavy
        self.note, self.quick, self.pre = note, quick, pre


def ord_cmp(op, x, y):
    return f"({x} {ORDER[op]} {y})"


def table(variant, tags):
    """The reference operator table. Returns a Spec for (node kind, operand tags)."""
    t = tuple(tags)
    NONE = "None"
    # ------------------------------------------------------------------ unary
    if variant == "Some":
        return Spec(f"ok_bool(&r, {str(t[0] != NONE).lower()})", cls="none" if t[0] == NONE else "supported")
    if variant == "None":
        return Spec(f"ok_bool(&r, {str(t[0] == NONE).lower()})", cls="none" if t[0] == NONE else "supported")
    if variant in UNARY and t[0] == NONE:
        return Spec("ok_none(&r)", cls="none")
    if variant == "Not":
        return Spec("ok_bool(&r, !a)") if t == ("Bool",) else unsupported()
    if variant == "Neg":
        if t == ("Int",):
            return Spec("match a.checked_neg() { Some(n) => ok_int(&r, n), None => err_oob(&r) }",
                        c01="a != i128::MIN || is_err(&r)", covers=[("a == i128::MIN", "overflowing operand")])
        if t == ("Float",):
            return Spec("ok_float(&r, f64::from_bits(a.to_bits() ^ (1u64 << 63)))")
        if t == ("Decimal",):
            return Spec("matches!(&r, Ok(Value::Decimal(x)) if x.mantissa() == -a.mantissa() && x.scale() == a.scale())")
        return unsupported()
    if variant == "Int":
        if t == ("Int",):
            return Spec("ok_int(&r, a)")
        if t == ("Float",):
            rng = "(a >= -170141183460469231731687303715884105728.0 && a < 170141183460469231731687303715884105728.0)"
            return Spec(f"if {rng} {{ ok_int(&r, a.trunc() as i128) }} else {{ err_range(&r) }}",
                        c01=f"if {rng} {{ ok_int(&r, a.trunc() as i128) }} else {{ is_err(&r) }}",
                        covers=[(rng, "in range"), ("a.is_nan()", "NaN"), ("a >= 170141183460469231731687303715884105728.0", "too large")])
        if t == ("Decimal",):
            return Spec("ok_int(&r, a.mantissa())", dec="scale0", note="Decimal operand restricted to scale 0 "
                        "(to_i128 truncates through a division loop at other scales)")
        if t == ("String",):
            return Spec("err_cast(&r)", note="empty string only: not a number => invalid cast")
        return unsupported()
    if variant == "Float":
        if t == ("Int",):
            return Spec("ok_float(&r, a as f64)")
        if t == ("Float",):
            return Spec("ok_float(&r, a)")
        if t == ("Decimal",):
            return Spec("matches!(&r, Ok(Value::Float(_))) || err_cast(&r)", dec="scale0", quick=False, heavy=True,
                        note="Decimal->f64 goes through rust_decimal's to_f64 (scale 0 only; value not compared)")
        if t == ("String",):
            return Spec("err_cast(&r)", note="empty string only")
        return unsupported()
    if variant == "Dec":
        if t == ("Int",):
            fits = "(a > -79228162514264337593543950336 && a < 79228162514264337593543950336)"
            return Spec(f"if {fits} {{ matches!(&r, Ok(Value::Decimal(x)) if x.mantissa() == a && x.scale() == 0) }} else {{ err_range(&r) }}",
                        c01=f"if {fits} {{ matches!(&r, Ok(Value::Decimal(x)) if x.mantissa() == a && x.scale() == 0) }} else {{ is_err(&r) }}",
                        covers=[(fits, "fits 96 bits"), (f"!{fits}", "does not fit")])
        if t == ("Decimal",):
            return Spec("ok_dec(&r, &a)")
        if t == ("String",):
            return Spec("err_cast(&r)", note="empty string only")
        if t == ("Float",):
            return None  # Decimal::try_from(f64): dependency algorithm (digit generation loops), outside
        return unsupported()
    if variant == "DateTime":
        if t == ("Int",):
            rng = "(a >= -8334601228800 && a <= 8210266876799)"
            return Spec(f"if {rng} {{ ok_dt(&r, &DateTime::from_timestamp(a as i64, 0).unwrap()) }} else {{ err_range(&r) }}",
                        kexp="if a >= i64::MIN as i128 && a <= i64::MAX as i128 { rec_ts(a as i64) && (if ret_some { ok_dt(&r, &ret_dt) } else { err_range(&r) }) } "
                             "else { rec_n() == 0 && err_range(&r) }",
                        stubs=[("chrono::DateTime::<chrono::Utc>::from_timestamp", "st_from_ts")], pre=PRE_DRAW_DT,
                        c01r=f"if {rng} {{ matches!(&r, Ok(Value::DateTime(_))) }} else {{ is_err(&r) }}",
                        c01=f"if {rng} {{ ok_dt(&r, &DateTime::from_timestamp(a as i64, 0).unwrap()) }} else {{ is_err(&r) }}",
                        covers=[(rng, "representable"), ("a > i64::MAX as i128", "beyond 64 bits")],
                        note="representable timestamps = chrono's documented range (year -262143..=262142); inside it the result must be "
                             "chrono's DateTime for exactly that number of seconds (chrono's calendar arithmetic itself is trusted)")
        if t == ("DateTime",):
            return Spec("ok_dt(&r, &a)")
        if t == ("String",):
            return Spec("err_cast(&r)", note="empty string only", heavy=True, quick=False, unwind=3)
        return unsupported()
    if variant == "Duration":
        if t == ("Int",):
            lim = "9223372036854775"  # i64::MAX / 1000: TimeDelta stores milliseconds in range
            return Spec(f"if a >= -{lim} && a <= {lim} {{ matches!(&r, Ok(Value::Duration(d)) if d.num_seconds() as i128 == a && d.subsec_nanos() == 0) }} else {{ err_range(&r) }}",
                        c01="match &r { Ok(Value::Duration(d)) => d.num_seconds() as i128 == a, Ok(_) => false, Err(_) => true }",
                        covers=[("matches!(&r, Ok(_))", "representable"), ("a > i64::MAX as i128", "beyond 64 bits")])
        if t == ("Duration",):
            return Spec("ok_dur(&r, &a)")
        return unsupported()
    if variant in ("UpperCase", "LowerCase", "Trim"):
        return Spec("ok_empty_str(&r)", note="empty string only") if t == ("String",) else unsupported()
    if variant in ("Round", "Floor", "Fract"):
        if t == ("Float",):
            ref = {"Round": "a.round()", "Floor": "a.floor()", "Fract": "a - a.trunc()"}[variant]
            extra = ""
            if variant == "Round":
                # independent characterisation: nearest integer, ties away from zero
                extra = (" && (if a.is_finite() && a.abs() < 4503599627370496.0 { match &r { Ok(Value::Float(x)) => "
                         "(*x - a).abs() <= 0.5 && x.fract() == 0.0 && ((*x - a).abs() < 0.5 || x.abs() > a.abs()), _ => false } } else { true })")
            if variant == "Floor":
                extra = (" && (if a.is_finite() && a.abs() < 4503599627370496.0 { match &r { Ok(Value::Float(x)) => "
                         "*x <= a && *x + 1.0 > a && x.fract() == 0.0, _ => false } } else { true })")
            return Spec(f"ok_float(&r, {ref}){extra}")
        if t == ("Decimal",):
            k = ROUND_KIND[variant]
            real = {"Round": "a.round()", "Floor": "a.floor()", "Fract": "a.fract()"}[variant]
            return Spec(f"ok_dec(&r, &{real})", kexp=f"rec_is({k}, &a, &a) && ok_dec(&r, &ret_dec)", stubs=ROUND_STUBS, pre=PRE_DRAW)
        return unsupported()
    if variant == "Year":
        return Spec("ok_int(&r, a_y as i128)") if t == ("DateTime",) else unsupported()
    if variant == "Month":
        return Spec("ok_int(&r, ref_month_day(a_y, a_ord).0 as i128)", unwind=13) if t == ("DateTime",) else unsupported()
    if variant in UNIT_SECS:
        k = UNIT_SECS[variant]
        if t == ("Int",):
            lim = 9223372036854775 // k
            return Spec(f"if a >= -{lim} && a <= {lim} {{ matches!(&r, Ok(Value::Duration(d)) if d.num_seconds() as i128 == a * {k} && d.subsec_nanos() == 0) }} else {{ err_oob(&r) }}",
                        c01=f"match &r {{ Ok(Value::Duration(d)) => a.checked_mul({k}) == Some(d.num_seconds() as i128), Ok(_) => false, Err(_) => true }}",
                        covers=[("matches!(&r, Ok(_))", "representable"), ("a > i64::MAX as i128", "beyond 64 bits")])
        if t == ("Duration",):
            kind = {"Week": 50, "Day": 51, "Hour": 52, "Minute": 53, "Second": 54}[variant]
            return Spec(f"ok_int(&r, a.{DUR_GET[variant]}() as i128)",
                        kexp=f"rec_td({kind}, &a) && ok_int(&r, ret_i64 as i128)", stubs=TD_STUBS, pre=PRE_DRAW_TD,
                        note=f"chrono's TimeDelta::{DUR_GET[variant]} replaced by a recorder (which getter, which operand, result passed through)")
        if t == ("DateTime",) and variant != "Week":
            ref = {"Day": "ref_month_day(a_y, a_ord).1", "Hour": "a_secs / 3600", "Minute": "(a_secs % 3600) / 60",
                   "Second": "a_secs % 60"}[variant]
            return Spec(f"ok_int(&r, ({ref}) as i128)", unwind=13 if variant == "Day" else 2)
        return unsupported()
    # ------------------------------------------------------------------ binary
    if variant in BINARY and variant != "Contains" and NONE in t:
        if variant in ORDER:
            return Spec("ok_bool(&r, false)", cls="none")
        return Spec("ok_none(&r)", cls="none")
    if variant in ARITH:
        m = ARITH[variant]
        if t == ("Int", "Int"):
            if variant in ("Div", "Rem", "Mult"):
                return None  # width-staged cells, see int_arith_cells()
            if variant in ("Div", "Rem"):
                return Spec(f"if b == 0 {{ err_div0(&r) }} else if a == i128::MIN && b == -1 {{ is_err(&r) || ok_int(&r, 0) && {str(variant == 'Rem').lower()} }} else {{ ok_int(&r, a {'/' if variant == 'Div' else '%'} b) }}",
                            c01="!(b == 0 || (a == i128::MIN && b == -1)) || is_err(&r) || ok_int(&r, 0)",
                            covers=[("b == 0", "zero divisor"), ("a == i128::MIN && b == -1", "overflowing quotient")],
                            note="i128::MIN / -1 must be an error (any class); i128::MIN % -1 may be 0 or an error")
            return Spec(f"match a.checked_{m}(b) {{ Some(v) => ok_int(&r, v), None => err_oob(&r) }}",
                        c01=f"a.checked_{m}(b).is_some() || is_err(&r)",
                        covers=[(f"a.checked_{m}(b).is_none()", "overflow region")], heavy=(variant == "Mult"),
                        quick=True, note="128x128-bit multiply" if variant == "Mult" else None)
        if t == ("Float", "Float"):
            sym = {"Add": "+", "Sub": "-", "Mult": "*", "Div": "/", "Rem": "%"}[variant]
            if variant in ("Div", "Rem"):
                return None  # identities handled by float_identities()
            return Spec(f"ok_float(&r, a {sym} b)", heavy=(variant == "Mult"), quick=(variant != "Mult"))
        if t == ("Decimal", "Decimal"):
            k = DEC_KIND[variant]
            err = "err_div0(&r)" if variant in ("Div", "Rem") else "err_oob(&r)"
            real = f"match a.checked_{m}(b) {{ Some(v) => ok_dec(&r, &v), None => {err} }}"
            if variant in ("Div", "Rem"):
                real = f"match a.checked_{m}(b) {{ Some(v) => ok_dec(&r, &v), None => is_err(&r) }}"
            kexp = (f"rec_n() == 1 && rec_is(rec_kind(), &a, &b) && "
                    f"(if rec_kind() == {k} {{ if ret_some {{ ok_dec(&r, &ret_dec) }} else {{ {err} }} }} "
                    f"else {{ rec_kind() == {k + 10} && ok_dec(&r, &ret_dec) }})")
            return Spec(real, kexp=kexp, stubs=DEC_ALL_ARITH_STUBS, pre=PRE_DRAW,
                        note="rust_decimal arithmetic replaced by recorders: exactly this operation, these operands, this order, "
                             "result passed through; None => the table's error")
        if variant == "Add" and t == ("DateTime", "Duration"):
            return Spec("match a.checked_add_signed(b) { Some(v) => ok_dt(&r, &v), None => err_oob(&r) }", c01=None,
                        kexp="rec_dt(40, &a, &b) && (if ret_some { ok_dt(&r, &ret_dt) } else { err_oob(&r) })",
                        stubs=CHRONO_STUBS, pre=PRE_DRAW_DT,
                        note="chrono's NaiveDateTime::checked_add_signed replaced by a recorder (operation, operands, pass-through)")
        if variant == "Sub" and t == ("DateTime", "Duration"):
            return Spec("match a.checked_sub_signed(b) { Some(v) => ok_dt(&r, &v), None => err_oob(&r) }",
                        kexp="rec_dt(41, &a, &b) && (if ret_some { ok_dt(&r, &ret_dt) } else { err_oob(&r) })",
                        stubs=CHRONO_STUBS, pre=PRE_DRAW_DT,
                        note="chrono's NaiveDateTime::checked_sub_signed replaced by a recorder")
        if variant == "Sub" and t == ("DateTime", "DateTime"):
            return Spec("ok_dur(&r, &a.signed_duration_since(b))",
                        kexp="rec_dtdt(&a, &b) && ok_dur(&r, &ret_dur)", stubs=CHRONO_STUBS, pre=PRE_DRAW_DT,
                        note="chrono's NaiveDateTime::signed_duration_since replaced by a recorder")
        if variant == "Sub" and t == ("Duration", "Duration"):
            return Spec("match a.checked_sub(&b) { Some(v) => ok_dur(&r, &v), None => err_oob(&r) }",
                        covers=[("is_err(&r)", "unrepresentable difference")])
        return unsupported()
    if variant in ORDER:
        if t in (("Int", "Int"), ("Float", "Float"), ("Duration", "Duration")):
            return Spec(f"ok_bool(&r, {ord_cmp(variant, 'a', 'b')})")
        if t == ("DateTime", "DateTime"):
            # independent order: lexicographic on the numbers the dates were built from
            key = lambda v: f"({v}_y, {v}_ord, {v}_secs, {v}_nano)"
            return Spec(f"ok_bool(&r, {key('a')} {ORDER[variant]} {key('b')})")
        if t == ("Decimal", "Decimal"):
            o = ORDER[variant]
            return Spec(f"ok_bool(&r, a {o} b)",
                        kexp=f"rec_is(20, &a, &b) && ok_bool(&r, (ret_ord.signum() as i32) {o} 0)", stubs=CMP_STUB, pre=PRE_DRAW,
                        note="rust_decimal::ops::cmp_impl replaced by a recorder returning an arbitrary Ordering")
        return unsupported()
    if variant in BITS:
        o = BITS[variant]
        if t == ("Int", "Int"):
            return Spec(f"ok_int(&r, a {o} b)")
        if t == ("Bool", "Bool"):
            return Spec(f"ok_bool(&r, a {o} b)")
        return unsupported()
    if variant == "Contains":
        if t[0] == NONE:
            return Spec("ok_bool(&r, false)", cls="none")
        if t == ("Int", "Int"):
            return Spec("ok_bool(&r, (a & b) != 0)")
        if t[0] == "Vec":
            return Spec("ok_bool(&r, false)", cls="none" if t[1] == NONE else "supported", note="empty list: nothing is a member")
        if t == ("Map", "String"):
            return Spec("ok_bool(&r, false)", note="empty map, empty key")
        if t == ("String", "String"):
            return Spec("ok_bool(&r, true)", note="empty strings: \"\" contains \"\"", heavy=True, quick=False, unwind=3)
        if t[1] == NONE:
            return Spec("err_type(&r)", cls="none", note="a None item follows the ordinary rule of the collection's type: type error")
        return unsupported()
    if variant in ("Equals", "NotEquals"):
        # only used when the source implements == / != by a strict function of two values
        neg = variant == "NotEquals"
        def res(expr):
            return f"r.okb(!({expr}))" if neg else f"r.okb({expr})"
        if NONE in t:
            return Spec(res("false"), cls="none", note="nothing equals None, not even None")
        if t[0] != t[1]:
            return Spec(res("false"), cls="unsupported", note="values of different types are simply not equal (no coercion, no error)")
        same = {"Int": "a == b", "Float": "a == b", "Decimal": "a == b", "Bool": "a == b", "DateTime": "a == b", "Duration": "a == b",
                "String": "true", "Vec": "true", "Map": "true"}[t[0]]
        return Spec(res(same), heavy=(t[0] == "Decimal"))
    raise EncodingError(f"no table entry for {variant} {t}")


def unsupported():
    return Spec("err_type(&r)", cls="unsupported")


def apply(arm, vals):
    """Rust expression applying the arm's operator to the given value expressions (one per evaluated sub-expression, in the
    order of the node's fields)."""
    app = arm_application(arm)
    if len(app["evaluated"]) != len(vals):
        raise EncodingError(f"arm evaluates {len(app['evaluated'])} sub-expressions, {len(vals)} operands given: {arm['text'][:80]}")
    return "(" + app["template"].format(*vals) + ")"


def arm_fn(arm):
    return arm_application(arm)["fn"] or "?"


def arg_order(arm, arity):
    """Positions in which the function receives the node's sub-expressions, from the arm text."""
    import re
    seq = re.findall(r"(\w+)\.eval_rec\(context\)\s*\.await\?", arm["text"].split("=>", 1)[1])
    binds = arm["binds"]
    if len(seq) != arity or sorted(seq) != sorted(binds[:arity]) and arity == len(binds):
        raise EncodingError(f"arm `{arm['text'][:80]}` is not of the form f(x.eval_rec(context).await?, ..)")
    return [binds.index(s) for s in seq]


def make_cell(run, arms, variant, tags, mode):
    """mode: 'c02' full table, 'c03' unsupported, 'c04' none, 'c01' panic freedom + range oracle (real dependencies)."""
    spec = table(variant, tags)
    if spec is None:
        return None
    arm = arms.get(variant)
    if not arm:
        raise EncodingError(f"no eval_rec arm for node kind {variant}")
    arity = len(tags)
    dec = spec.dec
    heavy = spec.heavy
    if mode == "c01" and spec.kexp:
        dec, heavy = "scale0", True     # real dependency code instead of recorders
    syms = [Sym(tag, "ab"[i], dec=dec) for i, tag in enumerate(tags)]
    decls = "\n        ".join(s.decl for s in syms if s.decl)
    callx = apply(arm, [s.value for s in syms])
    name = f"{mode}_{variant}_" + "_".join(tags)
    fn = arm_fn(arm)
    shows = "".join(f' show("{s.var}", &{s.var});' for s in syms if s.decl)
    covers = "".join(f'\n        vcover!({c}, "{l}");' for c, l in spec.covers)
    if mode == "c01":
        exp = spec.c01r or spec.c01 or "true"
        kexp, stubs, pre = None, [], ""
    else:
        exp, kexp, stubs, pre = spec.exp, spec.kexp, spec.stubs, spec.pre
    body = f"""
        {decls}
        {pre if kexp else ''}
        let r = {callx};
        show("result", &r);{shows}{covers}
        assert!({kexp or exp});
        std::mem::forget(r);"""
    native = None
    if kexp:
        native = f"""
        {decls}
        {pre}
        let r = {callx};
        show("result", &r);{shows}
        assert!({exp});
        std::mem::forget(r);"""
    meta = {"node": variant, "function": fn, "operands": {s.var: f"{s.tag}: {s.descr}" for s in syms},
            "class": spec.cls, "expect": (kexp or exp)[:300]}
    if spec.note:
        meta["note"] = spec.note
    h = Harness(name, body, unwind=spec.unwind, stubs=stubs, heavy=heavy, cell=name, meta=meta,
                native_body=native, abstract=bool(kexp))
    h.spec = spec
    if mode == "c01" and spec.kexp and "Decimal" in tags:
        # rust_decimal's real code (scale 0): minutes per cell -> thorough tier only, never mandatory
        import copy
        h.spec = copy.copy(spec)
        h.spec.quick = False
        h.mandatory = False
    h.variant, h.tags = variant, tuple(tags)
    return h


def all_tag_tuples(variant):
    if variant in UNARY:
        return [(t,) for t in TAGS]
    return [(x, y) for x in TAGS for y in TAGS]


def index_cells(run, arms, mode):
    """index(value, &Index): the container part of the table needs contents (C10, not applicable); decided here:
    a step into None gives None, a step into a scalar or of the wrong kind is a type error, and with an empty
    container every step gives None."""
    arm = arms.get("Index")
    if not arm:
        raise EncodingError("Index arm not recognised")
    fn = arm_fn(arm)
    idx_bind = arm["binds"][1] if len(arm["binds"]) > 1 else "idx"
    hs = []
    for tag in TAGS:
        for ik, iv in (("Map", 'Index::Map(String::from("k"))'), ("Vec", "Index::Vec(inp.usize())")):
            s = Sym(tag, "a")
            if tag == "None":
                exp, cls = "ok_none(&r)", "none"
            elif tag == ik:
                exp, cls = "ok_none(&r)", "supported"
            else:
                exp, cls = "err_type(&r)", "unsupported"
            if (mode == "c04") != (cls == "none") and mode in ("c03", "c04"):
                continue
            if mode == "c03" and cls != "unsupported":
                continue
            if mode == "c02" and cls != "supported":
                continue
            if mode == "c01":
                exp = "true"
            body = f"""
        {s.decl}
        let idx_owned = {iv};
        let {idx_bind} = &idx_owned;
        let r = {apply(arm, [s.value])};
        show("result", &r);
        assert!({exp});
        std::mem::forget(r); std::mem::forget(idx_owned);"""
            h = Harness(f"{mode}_Index_{tag}_by{ik}", body, unwind=3,
                        meta={"node": "Index", "function": fn, "operands": {"a": f"{tag}: {s.descr}", "index": ik}, "class": cls})
            h.variant, h.tags = "Index", (tag, ik)
            h.spec = Spec(exp, cls=cls)
            hs.append(h)
    return hs


def float_identities(run, arms):
    """Float `/` and `%`: bit-exact equality with the IEEE operation gives no verdict in CBMC (divider / fmod),
    so these cells pin the operation and the operand order by identities on constrained operands."""
    hs = []
    for variant, idents in (("Div", [("x_over_1", "b == 1.0", "ok_float(&r, a)"),
                                     ("x_over_inf", "b.is_infinite() && a.is_finite()", "matches!(&r, Ok(Value::Float(x)) if *x == 0.0 && x.is_sign_negative() == (a.is_sign_negative() != b.is_sign_negative()))"),
                                     ("zero_over_x", "a == 0.0 && b != 0.0 && !b.is_nan()", "matches!(&r, Ok(Value::Float(x)) if *x == 0.0)"),
                                     ("x_over_zero", "b == 0.0 && a != 0.0 && !a.is_nan()", "matches!(&r, Ok(Value::Float(x)) if x.is_infinite())"),
                                     ("nan", "a.is_nan() || b.is_nan()", "matches!(&r, Ok(Value::Float(x)) if x.is_nan())"),
                                     ("pow2", "b == 2.0 && a.is_finite() && a.abs() > 1e-300", "ok_float(&r, a * 0.5)")]),
                             ("Rem", [("nan", "a.is_nan() || b.is_nan()", "matches!(&r, Ok(Value::Float(x)) if x.is_nan())"),
                                      ("tag", "true", "matches!(&r, Ok(Value::Float(_)))")])):
        arm = arms[variant]
        callx = apply(arm, ["Value::Float(a)", "Value::Float(b)"])
        for nm, pre, exp in idents:
            body = f"""
        let a = inp.f64(); let b = inp.f64();
        assume({pre});
        let r = {callx};
        show("a", &a); show("b", &b); show("result", &r);
        assert!({exp});
        std::mem::forget(r);"""
            h = Harness(f"c02_{variant}_Float_Float_{nm}", body, heavy=(nm in ("pow2",)), mandatory=(nm not in ("pow2", "x_rem_inf")),
                        meta={"node": variant, "function": arm_fn(arm), "operands": {"a": "Float", "b": "Float"},
                              "class": "supported", "identity": f"{pre} => {exp}"})
            h.variant, h.tags, h.spec = variant, ("Float", "Float"), Spec(exp)
            hs.append(h)
    return hs


def cells_for(run, mode, tier, seed=0):
    src = run.read(EVAL)
    arms = eval_arms(src)
    hs = []
    strict_eq = [v for v in ("Equals", "NotEquals") if v in arms and not arms[v]["lazy"] and arms[v]["strict"] == 2 and arms[v]["fn"]]
    for variant in UNARY + BINARY + strict_eq:
        for tags in all_tag_tuples(variant):
            spec = table(variant, tags)
            if spec is None:
                continue
            want = {"c02": spec.cls == "supported", "c03": spec.cls == "unsupported", "c04": spec.cls == "none",
                    "c01": spec.cls == "supported"}[mode]
            if not want:
                continue
            if mode == "c01" and variant in ("Add", "Sub", "Mult") and tuple(tags) == ("Decimal", "Decimal"):
                continue  # covered by the *_scale0_real cells (same real code, plus the range oracle)
            h = make_cell(run, arms, variant, tags, mode)
            if h:
                hs.append(h)
    hs += index_cells(run, arms, mode)
    if mode == "c02":
        hs += float_identities(run, arms)
    if mode in ("c01", "c02"):
        hs += int_arith_cells(run, arms, mode)
        hs += string_cells(run, arms, mode)
    run.functions_encoded.update(sorted({h.meta.get("function") for h in hs if h.meta.get("function")}))
    return arms, hs


# ---------------------------------------------------------------------------------------------------------
def scale0_cells(run, arms, mode):
    """Decimal + - * on rust_decimal's REAL code at scale 0 (loop-free there), against integer arithmetic on the
    96-bit mantissas: an independent reference, no stubs. Also the C01 witnesses for Decimal overflow."""
    hs = []
    lim = "(1i128 << 96)"
    if mode == "c01":
        arm = arms["Mult"]
        callx = apply(arm, ["Value::Decimal(a)", "Value::Decimal(b)"])
        h = Harness("c01_Mult_Decimal_Decimal_scale0_real", f"""
        let a = any_decimal_scale0(inp); let b = any_decimal_scale0(inp);
        let r = {callx};
        show("a", &a); show("b", &b); show("result", &r);
        assert!(matches!(&r, Ok(Value::Decimal(_))) || err_oob(&r));
        std::mem::forget(r);""", unwind=2, heavy=True, mandatory=False,
                    meta={"node": "Mult", "function": arm_fn(arm), "class": "supported",
                          "note": "rust_decimal's real multiplication at scale 0, 96-bit mantissas: no panic, Decimal or out-of-bounds error"})
        h.variant, h.tags, h.spec = "Mult", ("Decimal", "Decimal"), Spec("", quick=False)
        hs.append(h)
        hs += decimal_checked_cells(run, arms)
    for variant, expr in (("Add", "ma + mb"), ("Sub", "ma - mb")):
        arm = arms[variant]
        callx = apply(arm, ["Value::Decimal(a)", "Value::Decimal(b)"])
        full = f"if m > -{lim} && m < {lim} {{ matches!(&r, Ok(Value::Decimal(x)) if x.mantissa() == m && x.scale() == 0) }} else {{ err_oob(&r) }}"
        c01 = f"if m > -{lim} && m < {lim} {{ matches!(&r, Ok(Value::Decimal(x)) if x.mantissa() == m) }} else {{ is_err(&r) }}"
        body = f"""
        let a = any_decimal_scale0(inp); let b = any_decimal_scale0(inp);
        let ma = a.mantissa(); let mb = b.mantissa();
        let m: i128 = {expr};
        let r = {callx};
        show("a", &a); show("b", &b); show("result", &r);
        vcover!(!(m > -{lim} && m < {lim}), "overflow region");
        assert!({c01 if mode == 'c01' else full});
        std::mem::forget(r);"""
        h = Harness(f"{mode}_{variant}_Decimal_Decimal_scale0_real", body, unwind=2, heavy=True, mandatory=False,
                    meta={"node": variant, "function": arm_fn(arm), "operands": {"a": "Decimal scale 0, 96-bit mantissa", "b": "same"},
                          "class": "supported", "note": "rust_decimal's real code (no stub) against i128 mantissa arithmetic"})
        h.variant, h.tags, h.spec = variant, ("Decimal", "Decimal"), Spec(full, quick=False)
        hs.append(h)
    for variant in ("GreaterThan", "LessThanEquals"):
        arm = arms[variant]
        callx = apply(arm, ["Value::Decimal(a)", "Value::Decimal(b)"])
        body = f"""
        let a = any_decimal_scale0(inp); let b = any_decimal_scale0(inp);
        let r = {callx};
        show("a", &a); show("b", &b); show("result", &r);
        assert!(ok_bool(&r, a.mantissa() {ORDER[variant]} b.mantissa()));
        std::mem::forget(r);"""
        h = Harness(f"{mode}_{variant}_Decimal_Decimal_scale0_real", body, unwind=2, heavy=True, mandatory=False,
                    meta={"node": variant, "function": arm_fn(arm), "class": "supported",
                          "note": "rust_decimal's real comparison at scale 0 against the order of the mantissas"})
        h.variant, h.tags, h.spec = variant, ("Decimal", "Decimal"), Spec("")
        if mode == "c02":
            hs.append(h)
    return hs


# ---------------------------------------------------------------------------------------------------------
def select_quick(hs, mode, seed):
    """Quick-tier subset (C03 only has too many cells for a per-change run): every Int/Float/Decimal mix, every
    cell whose left operand tag equals a tag the operator supports on the left (near misses), and a seed-rotated
    1-in-4 sample of the rest."""
    if mode != "c03":
        return [h for h in hs if getattr(h, "spec", None) is None or h.spec.quick]
    num = {"Int", "Float", "Decimal"}
    keep = []
    rest = []
    for h in hs:
        t = h.tags
        if len(t) == 2 and set(t) <= num:
            keep.append(h)
        elif len(t) == 1:
            keep.append(h)
        else:
            rest.append(h)
    rest.sort(key=lambda h: h.name)
    keep += [h for i, h in enumerate(rest) if (i + seed) % 4 == 0]
    return keep


def run_cells(run, mode, only=None, extra=None, extra_preamble=""):
    from .kani import Overlay, decide, run_kani
    tier = run.tier
    arms, hs = cells_for(run, mode, tier, run.seed)
    if mode in ("c01", "c02"):
        hs += scale0_cells(run, arms, mode)
    if extra:
        hs += extra(run, arms)
    total = len(hs)
    if tier == "quick":
        hs = select_quick(hs, mode, run.seed)
    if only:
        hs = [h for h in hs if only in h.name]
    ov = Overlay(run, "cells")
    ov.preamble(EVAL, PREAMBLE + extra_preamble)
    for h in hs:
        ov.add(getattr(h, "file", EVAL), h)
    ov.write()
    light = [h for h in hs if not h.heavy]
    heavy = [h for h in hs if h.heavy]
    res = run_kani(run, light, timeout_s=180 if tier == "quick" else 900, tag="light")
    if heavy:
        res.update(run_kani(run, heavy, jobs=6, timeout_s=360 if tier == "quick" else 2400, tag="heavy"))

    def on_unrepro(h, r, logs):
        if not h.abstract:
            return False
        # an abstract (recorder) cell failed but the same operands behave correctly with the real dependency:
        # the code applies the dependency differently from what the recorder expects. Not a violation.
        run.notes.append(f"{h.cell}: recorder model mismatch that does not reproduce with the real dependency "
                         f"({'; '.join(c['description'] for c in r.failed[:2])}); see the *_scale0_real obligations")
        run.inconc(h.cell, "abstract recorder mismatch, not reproducible natively", mandatory=False)
        return True

    decide(run, hs, res, on_unreproduced=on_unrepro)
    run.extra["cells_total_for_mode"] = total
    run.extra["cells_selected"] = len(hs)
    return arms, hs


COMMON_ASSUMPTIONS = [
    "Kani 0.68 / CBMC 6.11 model of rustc MIR (dev profile: debug assertions and overflow checks on); counterexamples replayed natively in dev and release",
    "operands have concrete Value tags (one harness per tag tuple) and symbolic payloads over the whole type",
    "container operands (String, Vec, Map) appear only as the empty string/list/map: the operator code paths decided here depend on the tag only",
    "DateTime operands exclude chrono's leap-second representation (nanosecond >= 1e9)",
    "CBMC check class `NaN on <op>` (Kani's --nan-check) is ignored: producing NaN is the IEEE result the table prescribes",
    "which function implements which node kind, and in which operand order, is read from the eval_rec match arms; the arms themselves "
    "(`f(l.eval_rec(ctx).await?, r.eval_rec(ctx).await?)`) are not executed symbolically (outside the claim)",
]
OUTSIDE = [
    "composite expressions / the eval_rec dispatcher (async coroutine, no CBMC verdict even for one leaf)",
    "string, list and map operands with contents (uppercase/lowercase/trim/contains/index on non-empty containers)",
    "dec(Float), float(Decimal), int(Decimal) beyond scale 0, String->number/date casts on non-empty strings (dependency parsers)",
]


def int_arith_cells(run, arms, mode):
    """Int * / %: CBMC's 128-bit multiplier/divider is the bottleneck, so the exact-value cells are staged by operand
    width (stated bound); the error cells (zero divisor, i128::MIN / -1, overflow) are decided at full width."""
    hs = []

    def call(variant, x, y):
        return apply(arms[variant], [f"Value::Int({x})", f"Value::Int({y})"])

    def add(name, body, heavy=False, quick=True, mandatory=True, variant="Div", note=""):
        h = Harness(f"{mode}_{name}", body, heavy=heavy, mandatory=mandatory,
                    meta={"node": variant, "function": arm_fn(arms[variant]), "class": "supported", "note": note})
        h.variant, h.tags, h.spec = variant, ("Int", "Int"), Spec("", quick=quick, heavy=heavy)
        hs.append(h)

    if mode == "c01":
        for v in ("Div", "Rem"):
            add(f"{v}_Int_Int", f"""
        let a = inp.i128(); let b = inp.i128();
        let r = {call(v, 'a', 'b')};
        show("a", &a); show("b", &b); show("result", &r);
        vcover!(b == 0, "zero divisor"); vcover!(a == i128::MIN && b == -1, "overflowing quotient");
        assert!(!(b == 0 || (a == i128::MIN && b == -1)) || is_err(&r) || ({str(v == 'Rem').lower()} && ok_int(&r, 0)));
        std::mem::forget(r);""", variant=v, note="full width: no panic; zero divisor and i128::MIN / -1 are errors")
        add("Mult_Int_Int", f"""
        let a = inp.i128(); let b = inp.i128();
        let r = {call('Mult', 'a', 'b')};
        show("a", &a); show("b", &b); show("result", &r);
        assert!(matches!(&r, Ok(Value::Int(_))) || err_oob(&r));
        std::mem::forget(r);""", variant="Mult", heavy=True, note="full width: no panic, result is an Int or the out-of-bounds error")
        add("Mult_Int_Int_b32_exact", f"""
        let a = inp.i128(); let b = inp.i32() as i128;
        let r = {call('Mult', 'a', 'b')};
        show("a", &a); show("b", &b); show("result", &r);
        vcover!(a.checked_mul(b).is_none(), "overflow region");
        assert!(a.checked_mul(b).is_some() || is_err(&r));
        assert!(match a.checked_mul(b) {{ Some(v) => ok_int(&r, v), None => true }});
        std::mem::forget(r);""", variant="Mult", heavy=True, note="right operand restricted to 32 bits: an Ok result is the exact product (no wrap)")
        return hs
    # ---- c02
    for v in ("Div", "Rem"):
        add(f"{v}_Int_Int_edges", f"""
        let a = inp.i128(); let bz = inp.bool();
        let b: i128 = if bz {{ 0 }} else {{ -1 }};
        let r = {call(v, 'a', 'b')};
        show("a", &a); show("b", &b); show("result", &r);
        assert!(if b == 0 {{ err_div0(&r) }} else if a == i128::MIN {{ is_err(&r) || ({str(v == 'Rem').lower()} && ok_int(&r, 0)) }}
                else {{ ok_int(&r, {'-a' if v == 'Div' else '0'}) }});
        std::mem::forget(r);""", variant=v, note="every dividend, divisor 0 or -1: division by zero; i128::MIN / -1 is an error (any class), "
                                          "i128::MIN % -1 may be 0 or an error")
    for bits, ty, quick, heavy in ((32, "i32", True, True), (64, "i64", False, True)):
        add(f"Div_Int_Int_{bits}bit", f"""
        let a = inp.{ty}() as i128; let b = inp.{ty}() as i128;
        assume(b != 0);
        let r = {call('Div', 'a', 'b')};
        show("a", &a); show("b", &b); show("result", &r);
        // division lemma (truncating): a = q*b + rem, |rem| < |b|, rem has the sign of a
        assert!(match &r {{ Ok(Value::Int(q)) => {{ let rem = a - *q * b; (rem == 0 || (rem < 0) == (a < 0)) && rem.abs() < b.abs() }}, _ => false }});
        std::mem::forget(r);""", heavy=heavy, quick=quick, mandatory=quick, variant="Div",
            note=f"operands restricted to {bits} bits (exact quotient by the division lemma)")
        rb, rty, wide = (16, "i16", "i32") if bits == 32 else (32, "i32", "i64")
        add(f"Rem_Int_Int_{rb}bit", f"""
        let a0 = inp.{rty}(); let b0 = inp.{rty}();
        assume(b0 != 0);
        let a = a0 as i128; let b = b0 as i128;
        let r = {call('Rem', 'a', 'b')};
        show("a", &a); show("b", &b); show("result", &r);
        assert!(ok_int(&r, ((a0 as {wide}) % (b0 as {wide})) as i128));
        std::mem::forget(r);""", heavy=heavy, quick=quick, mandatory=quick, variant="Rem",
            note=f"operands restricted to {rb} bits (CBMC's 128-bit remainder circuit is the bottleneck); reference computed in {wide}")
    for nm, decl, quick in (("b32", "let a = inp.i128(); let b = inp.i32() as i128;", True), ("full", "let a = inp.i128(); let b = inp.i128();", False)):
        add(f"Mult_Int_Int_{nm}", f"""
        {decl}
        let r = {call('Mult', 'a', 'b')};
        show("a", &a); show("b", &b); show("result", &r);
        vcover!(a.checked_mul(b).is_none(), "overflow region");
        assert!(match a.checked_mul(b) {{ Some(v) => ok_int(&r, v), None => err_oob(&r) }});
        std::mem::forget(r);""", heavy=True, quick=quick, mandatory=quick, variant="Mult",
            note="right operand restricted to 32 bits" if quick else "full 128x128-bit multiply")
    return hs


def decimal_checked_cells(run, arms):
    """C01, quick: Decimal + - * / % must go through an operation of rust_decimal that cannot panic. The recorders
    tell which entry point the operator function uses; the operator traits (`+ - * / %`) panic on overflow / zero
    divisor by rust_decimal's documentation. The native replay uses the extreme operands that make them panic."""
    hs = []
    ext = {"Add": ("Decimal::MAX", "Decimal::MAX"), "Sub": ("Decimal::MIN", "Decimal::MAX"), "Mult": ("Decimal::MAX", "Decimal::MAX"),
           "Div": ("Decimal::MAX", "Decimal::ZERO"), "Rem": ("Decimal::MAX", "Decimal::ZERO")}
    for variant in ("Add", "Sub", "Mult", "Div", "Rem"):
        arm = arms[variant]
        callx = apply(arm, ["Value::Decimal(a)", "Value::Decimal(b)"])
        body = f"""
        let a = any_decimal(inp); let b = any_decimal(inp);
        {PRE_DRAW}
        let r = {callx};
        assert!(rec_n() == 1 && rec_kind() < 10);
        assert!(matches!(&r, Ok(Value::Decimal(_))) || is_err(&r));
        std::mem::forget(r);"""
        native = f"""
        let a = any_decimal(inp); let b = any_decimal(inp);
        {PRE_DRAW}
        let (a, b) = ({ext[variant][0]}, {ext[variant][1]});
        let r = {callx};
        show("a", &a); show("b", &b); show("result", &r);
        assert!(is_err(&r));
        std::mem::forget(r);"""
        h = Harness(f"c01_{variant}_Decimal_Decimal_checked", body, stubs=DEC_ALL_ARITH_STUBS, native_body=native, abstract=True,
                    meta={"node": variant, "function": arm_fn(arm), "class": "supported",
                          "note": "recorders: the operator function must use rust_decimal's checked_* entry point (the operator traits panic on "
                                  "overflow / zero divisor); replayed natively on the extreme operands"})
        h.variant, h.tags, h.spec = variant, ("Decimal", "Decimal"), Spec("")
        hs.append(h)
    return hs


VALUE_RS = "src/value/mod.rs"


def partialeq_cells(mode):
    """`Value == Value` (the comparison behind ==, != and list membership), decided directly on the derived / hand-written
    PartialEq: same tag => the payload type's own equality (IEEE for Float: -0 == 0, NaN != NaN); different tags => false."""
    from .rustgen import SCALAR_TAGS
    hs = []
    natural = {"Int": "a == b", "Float": "a == b", "Decimal": "a == b", "Bool": "a == b", "DateTime": "a == b", "Duration": "a == b", "None": "true"}
    for ta in SCALAR_TAGS:
        for tb in SCALAR_TAGS:
            same = ta == tb
            if (mode == "c02") != same:
                continue
            sa, sb = Sym(ta, "a", dec="scale0"), Sym(tb, "b", dec="scale0")
            exp = natural[ta] if same else "false"
            body = f"""
        {sa.decl}
        {sb.decl}
        let (va, vb) = ({sa.value}, {sb.value});
        let r = va == vb;
        show("left", &va); show("right", &vb); show("equal", &r);
        assert!(r == ({exp}));
        let r2 = va != vb;
        assert!(r2 == !({exp}));
        std::mem::forget(va); std::mem::forget(vb);"""
            h = Harness(f"{mode}_valueeq_{ta}_{tb}", body, unwind=2, heavy=(ta == "Decimal" and same),
                        meta={"operation": "Value == Value", "operands": {"a": ta, "b": tb},
                              "expect": "payload type's own equality" if same else "false (different types are never equal)"})
            h.file = VALUE_RS
            h.spec = Spec("", quick=True)
            h.variant, h.tags = "ValueEq", (ta, tb)
            hs.append(h)
    return hs


def string_cells(run, arms, mode):
    """String operands WITH contents (the table cells above use the empty string only): the cast functions on every 1- and
    2-byte ASCII string (symbolic bytes) and on selected concrete strings with multi-byte characters (where byte offsets and
    character boundaries differ); case mapping / trim on concrete samples. C01: no panic, a value or the cast error;
    C02: digits denote their number, everything that is not a number is an invalid cast."""
    hs = []

    def add(name, body, unwind=8, heavy=False, meta=None, variant="Int"):
        h = Harness(f"{mode}_{name}", body, unwind=unwind, heavy=heavy, mandatory=not heavy, meta=meta or {})
        h.variant, h.tags, h.spec = variant, ("String",), Spec("", quick=True, heavy=heavy)
        hs.append(h)

    samples = ["12", "-7", "1\u20ac", "a\u00e9b", "\u20ac", "\U0001F60042", "0x1f", " 7", "1.5", "1e3", "NaN", "inf", "2015-07-30T03:26:13Z"]
    expect_int = {"12": "ok_int(&r, 12)", "-7": "ok_int(&r, -7)"}
    expect_float = {"12": "ok_float(&r, 12.0)", "-7": "ok_float(&r, -7.0)", "1.5": "ok_float(&r, 1.5)", "1e3": "ok_float(&r, 1000.0)"}
    expect_dec = {"12": "matches!(&r, Ok(Value::Decimal(x)) if x.mantissa() == 12 && x.scale() == 0)",
                  "1.5": "matches!(&r, Ok(Value::Decimal(x)) if x.mantissa() == 15 && x.scale() == 1)"}
    for variant, exp_tab in (("Int", expect_int), ("Float", expect_float), ("Dec", expect_dec), ("DateTime", {})):
        arm = arms[variant]
        for i, sv in enumerate(samples):
            lit = "\"" + sv.encode("unicode_escape").decode().replace("\\U0001f600", "\\u{1F600}").replace("\\u20ac", "\\u{20ac}").replace("\\xe9", "\\u{e9}") + "\""
            callx = apply(arm, [f"Value::String(String::from({lit}))"])
            if mode == "c02":
                numberish = sv in ("12", "-7", "1.5", "1e3", "NaN", "inf") or (variant == "DateTime" and sv.startswith("2015"))
                exp = exp_tab.get(sv) or ("(matches!(&r, Ok(_)) || err_cast(&r))" if numberish else "err_cast(&r)")
            else:
                exp = "(matches!(&r, Ok(_)) || is_err(&r))"
            add(f"{variant}_String_sample{i}", f"""
        let r = {callx};
        show("input", &{lit}); show("result", &r);
        assert!({exp});
        std::mem::forget(r);""", unwind=26, heavy=(variant == "DateTime"),
                meta={"node": variant, "operand": f"the string {sv!r} (concrete)", "expect": exp}, variant=variant)
        if variant != "Int":
            continue    # symbolic strings through the float / decimal parsers: no verdict in 360 s (measured); integers only
        for n in (1, 2):
            decl = "".join(f"let b{k} = inp.u8(); assume(b{k} < 128); " for k in range(n))
            push = "".join(f"sv.push(b{k} as char); " for k in range(n))
            callx = apply(arm, ["Value::String(sv)"])
            if mode == "c02" and variant == "Int" and n == 1:
                exp = "if b0 >= b'0' && b0 <= b'9' { ok_int(&r, (b0 - b'0') as i128) } else { err_cast(&r) }"
            elif mode == "c02" and variant == "Int" and n == 2:
                exp = ("if b0 >= b'0' && b0 <= b'9' && b1 >= b'0' && b1 <= b'9' { ok_int(&r, ((b0 - b'0') * 10 + (b1 - b'0')) as i128) } "
                       "else if (b0 == b'-' || b0 == b'+') && b1 >= b'0' && b1 <= b'9' { ok_int(&r, if b0 == b'-' { -((b1 - b'0') as i128) } else { (b1 - b'0') as i128 }) } "
                       "else { err_cast(&r) }")
            else:
                exp = "(matches!(&r, Ok(_)) || err_cast(&r))" if mode == "c02" else "(matches!(&r, Ok(_)) || is_err(&r))"
            add(f"{variant}_String_ascii{n}", f"""
        {decl}
        let mut sv = String::new(); {push}
        let r = {callx};
        show("result", &r);
        assert!({exp});
        std::mem::forget(r);""", unwind=n + 8, heavy=True,
                meta={"node": variant, "operand": f"every ASCII string of {n} byte(s)", "expect": exp[:200]}, variant=variant)
    # case mapping and trim on concrete samples (multi-byte characters, characters whose case mapping changes the byte length)
    for variant, pairs in (("UpperCase", [("a\u00e9", "A\u00c9"), ("stra\u00dfe", "STRASSE"), ("", "")]),
                           ("LowerCase", [("A\u00c9", "a\u00e9"), ("\u0130", "i\u0307")]),
                           ("Trim", [(" a\u00e9 \t", "a\u00e9"), ("\u2003x\u2003", "x")])):
        arm = arms[variant]
        for i, (src, want) in enumerate(pairs):
            lit = lambda t: "\"" + "".join(c if 32 <= ord(c) < 127 and c not in "\"\\" else "\\u{%x}" % ord(c) for c in t) + "\""
            callx = apply(arm, [f"Value::String(String::from({lit(src)}))"])
            exp = f"matches!(&r, Ok(Value::String(x)) if x.as_bytes() == {lit(want)}.as_bytes())" if mode == "c02" else "matches!(&r, Ok(Value::String(_)))"
            add(f"{variant}_String_sample{i}", f"""
        let r = {callx};
        show("result", &r);
        assert!({exp});
        std::mem::forget(r);""", unwind=24, heavy=True,
                meta={"node": variant, "operand": f"the string {src!r} (concrete)", "expect": f"{want!r}"}, variant=variant)
    return hs
