"""One level of the recursive dispatcher, arm by arm.

The whole `eval_rec` coroutine (46 arms in one state machine) is beyond CBMC (a one-level run needed > 40 GB), but a single arm
is not: for every strict arm `Expr::X(a, b) => f(a.eval_rec(context).await?, b.eval_rec(context).await?)` the generator copies
the arm's right-hand side VERBATIM from the source (on every run) into its own async fn whose parameters are the arm's pattern
bindings, and runs it with `Expr::eval_rec` replaced by the logging oracle of C05. Decided per arm, for all payloads:
the sub-expressions are evaluated exactly once, in field order; the first error ends the evaluation; the result is what the
arm's function returns on the sub-results in that order. What stays outside is only the `match` dispatch itself (pattern ->
arm), whose binding order is read from the pattern text.
"""
import re

from .cells import BINARY, EVAL, UNARY
from .common import EncodingError
from .extract import arm_application, eval_arms
from .kani import Harness
from .props import c05

FIELD_TY = {"expr": "&Box<Expr>", "name": "&String", "index": "&Index", "value": "&Value", "list": "&Vec<Expr>",
            "map": "&BTreeMap<String, Expr>"}

SAME_RES = r"""
    fn same_res(a: &Result<Value>, b: &Result<Value>) -> bool {
        match (a, b) {
            (Ok(x), Ok(y)) => x == y,
            (Err(Error::InvalidType), Err(Error::InvalidType)) => true,
            (Err(Error::DivisionByZero), Err(Error::DivisionByZero)) => true,
            (Err(Error::ValueOutOfBounds(..)), Err(Error::ValueOutOfBounds(..))) => true,
            (Err(Error::InvalidCast(..)), Err(Error::InvalidCast(..))) => true,
            _ => false,
        }
    }
    fn plan_val(id: usize) -> Value { match planned(id) { Ok(v) => v, Err(_) => Value::None } }
    // recorder standing in for the arm's operator function (whose own behaviour is decided by the operator cells): logs how often it is
    // called and with which operands, returns a result drawn by the harness beforehand
    static mut OPN: u32 = 0;
    static mut OPT: [u8; 2] = [9; 2];
    static mut OPV: [i128; 2] = [0; 2];
    static mut OPRET_OK: bool = true;
    static mut OPRET: i128 = 0;
    fn note_arg(k: usize, v: Value) {
        unsafe {
            match &v { Value::Int(i) => { OPT[k] = 1; OPV[k] = *i; } Value::Bool(b) => { OPT[k] = 0; OPV[k] = *b as i128; } Value::None => { OPT[k] = 2; } _ => { OPT[k] = 9; } }
        }
        std::mem::forget(v);
    }
    fn op_ret() -> Result<Value> { unsafe { if OPRET_OK { Ok(Value::Int(OPRET)) } else { Err(Error::InvalidType) } } }
    fn rec_op1(a: Value) -> Result<Value> { unsafe { OPN += 1; } note_arg(0, a); op_ret() }
    fn rec_op2(a: Value, b: Value) -> Result<Value> { unsafe { OPN += 1; } note_arg(0, a); note_arg(1, b); op_ret() }
    fn rec_index(a: Value, _i: &Index) -> Result<Value> { unsafe { OPN += 1; } note_arg(0, a); op_ret() }
    fn op_got(k: usize, tag: u8, v: i128) -> bool { unsafe { OPT[k] == tag && (tag == 2 || OPV[k] == v) } }
    fn out_is_ret(out: &Result<Value>) -> bool {
        unsafe { if OPRET_OK { matches!(out, Ok(Value::Int(x)) if *x == OPRET) } else { matches!(out, Err(Error::InvalidType)) } }
    }
"""


def enum_fields(run):
    from .printsmt import enum_fields as ef
    return ef(run.read("src/expr/mod.rs"))


def gen(run, tier, seed=0, results_only=False):
    arms = eval_arms(run.read(EVAL))
    fields = enum_fields(run)
    fns, hs = [], []
    strict = [(v, arms[v]) for v in UNARY + BINARY + ["Index"] if v in arms]
    idx = 0
    for variant, a in strict:
        app = arm_application(a)
        ft = fields.get(variant)
        if ft is None or len(ft) != len(a["binds"]):
            raise EncodingError(f"pattern of the {variant} arm does not match the enum's fields")
        rhs = a["text"].split("=>", 1)[1].strip().rstrip(",").strip()
        params = ", ".join(f"{b}: {FIELD_TY[t]}" for b, t in zip(a["binds"], ft))
        fns.append(f"    async fn arm_{variant}({params}, context: &mut EvalContext<'_>) -> Result<Value> {{\n        {rhs}\n    }}")
        exprs = [i for i, t in enumerate(ft) if t == "expr"]
        n = len(exprs)
        if n != len(app["evaluated"]):
            raise EncodingError(f"the {variant} arm evaluates {len(app['evaluated'])} sub-expressions but the node has {n}")
        # arguments of the slice: expression fields are oracle leaves 0..n-1 in FIELD order
        argv, pre = [], []
        k = 0
        for b, t in zip(a["binds"], ft):
            if t == "expr":
                pre.append(f"let fld{k} = Box::new(leaf({k}));")
                argv.append(f"&fld{k}")
                k += 1
            elif t == "index":
                pre.append(f"let idxv = Index::Vec(0); let {b} = &idxv;")
                argv.append("&idxv")
            else:
                raise EncodingError(f"strict arm {variant} with a field of kind {t}")
        call_f = "(" + app["template"].format(*[f"plan_val({i})" for i in range(n)]) + ")"
        operand_kind = 1
        # the operator function is replaced by a recorder when the arm applies it in the plain form f(v0[, v1]) (or index(v0, idx));
        # otherwise the real function runs and the result is compared with a direct application to the same values
        recordable = app["fn"] and (app["plain"] or ("index" in ft and re.fullmatch(r"\s*\w+\(\{0\},\s*\w+\)\s*", app["template"])))
        rec = "rec_index" if "index" in ft else ("rec_op1" if n == 1 else "rec_op2")
        # positions: which sub-result is the k-th argument of f
        argpos = [int(x) for x in re.findall(r"\{(\d)\}", app["template"])]
        nres = f"let exp = {call_f}; show(\"expected\", &exp); assert!(same_res(&out, &exp)); std::mem::forget(exp);"
        if "index" in ft:
            ib = a["binds"][ft.index("index")]
            nres = f"let {ib} = &idxv; " + nres
        if recordable:
            got = " && ".join(f"op_got({j}, 1, pi{argpos[j]})" for j in range(n))
            kres = f"assert!(unsafe {{ OPN }} == 1 && {got}); assert!(out_is_ret(&out));"
        else:
            kres = nres
        cases = [("vals", tuple([operand_kind] * n), "log_is(&[" + ", ".join(str(i) for i in range(n)) + "])", kres, nres)]
        if not results_only:
            fail = ("assert!(unsafe { OPN } == 0); " if recordable else "") + "assert!(matches!(&out, Err(Error::DivisionByZero)));"
            nfail = "assert!(matches!(&out, Err(_)));"
            cases.append(("first_fails", tuple([3] + [operand_kind] * (n - 1)), "log_is(&[0])", fail, nfail))
            if n == 2:
                cases.append(("second_fails", (operand_kind, 3), "log_is(&[0, 1])", fail, nfail))
        for cname, kinds, exp_log, exp_res, nat_res in cases:
            quick = cname == "vals" or (idx + seed) % 5 == 0
            # small integer payloads: the result is compared with the arm's own function on the same values, so the range is
            # irrelevant for what is decided here (order, once, pass-through), and CBMC's 128-bit multiplier/divider stays cheap
            small = " ".join(f"assume(pi{i} >= -5 && pi{i} <= 5);" for i in range(max(n, 1)))
            body = f"""
        {c05.draw(max(n, 1))}
        {small}
        {c05.set_plan(kinds)}
        let op_ok = inp.bool(); let op_ret = inp.i128();
        unsafe {{ OPN = 0; OPRET_OK = op_ok; OPRET = op_ret; }}
        {' '.join(pre)}
        let rs = RuleSet::default(); let mut cache = FunctionCache::new(); let facts = Value::None;
        let mut ctx = EvalContext::new(&rs, &mut cache, &facts);
        let out = block_on(arm_{variant}({', '.join(argv)}, &mut ctx));
        show("result", &out);
        assert!({exp_log});
        {exp_res}
        std::mem::forget(out); std::mem::forget(rs); std::mem::forget(cache);"""
            native = native_body(variant, n, kinds, exp_log, nat_res, "index" in ft, small)
            h = Harness(f"arm_{variant}_{cname}", body, unwind=1,
                        stubs=[("Expr::eval_rec", "oracle_eval_rec")] + ([(app["fn"], rec)] if recordable else []), heavy=True,
                        mandatory=True, native_body=native, abstract=True,
                        meta={"node": variant, "arm": rhs[:160], "case": cname,
                              "asserted": "sub-expressions evaluated once each in field order; first error ends evaluation; result = the arm's function on the sub-results"})
            h.quick = quick
            hs.append(h)
        idx += 1
    # ---- lazy arms: the arm forwards the unevaluated sub-expressions to a helper and may post-process its result
    lazy_cases = {
        "If": [("true_false", (0, 1, 1), "if pb0 { log_is(&[0, 1]) } else { log_is(&[0, 2]) }",
                "assert!(matches!(&out, Ok(Value::Int(x)) if *x == (if pb0 { pi1 } else { pi2 })));")],
        "Equals": [("ints", (1, 1), "log_is(&[0, 1])", "assert!(matches!(&out, Ok(Value::Bool(x)) if *x == (pi0 == pi1)));"),
                   ("left_none", (2, 1), "log_is(&[0])", "assert!(matches!(&out, Ok(Value::Bool(false))));"),
                   ("right_none", (1, 2), "log_is(&[0, 1])", "assert!(matches!(&out, Ok(Value::Bool(false))));")],
        "NotEquals": [("ints", (1, 1), "log_is(&[0, 1])", "assert!(matches!(&out, Ok(Value::Bool(x)) if *x == (pi0 != pi1)));"),
                      ("left_none", (2, 1), "log_is(&[0])", "assert!(matches!(&out, Ok(Value::Bool(true))));"),
                      ("both_none", (2, 2), "log_is(&[0])", "assert!(matches!(&out, Ok(Value::Bool(true))));"),
                      ("right_none", (1, 2), "log_is(&[0, 1])", "assert!(matches!(&out, Ok(Value::Bool(true))));")],
    }
    import os
    if not os.environ.get("VERIF_TRY_LAZY_ARMS"):
        lazy_cases = {}   # measured: every lazy-arm slice exceeds 600 s / several GB (helper + one more async layer); opt-in experiment only
    for variant, cases in lazy_cases.items():
        a = arms.get(variant)
        if not a or not a["lazy"]:
            continue   # strict implementation: handled above / by the strict-equality cells
        ft = fields[variant]
        rhs = a["text"].split("=>", 1)[1].strip().rstrip(",").strip()
        params = ", ".join(f"{b}: {FIELD_TY[t]}" for b, t in zip(a["binds"], ft))
        fns.append(f"    async fn arm_{variant}({params}, context: &mut EvalContext<'_>) -> Result<Value> {{\n        {rhs}\n    }}")
        n = len(ft)
        pre = " ".join(f"let fld{k} = Box::new(leaf({k}));" for k in range(n))
        argv = ", ".join(f"&fld{k}" for k in range(n))
        for cname, kinds, exp_log, exp_res in cases:
            body = f"""
        {c05.draw(n)}
        {c05.set_plan(kinds)}
        {pre}
        let rs = RuleSet::default(); let mut cache = FunctionCache::new(); let facts = Value::None;
        let mut ctx = EvalContext::new(&rs, &mut cache, &facts);
        let out = block_on(arm_{variant}({argv}, &mut ctx));
        show("result", &out);
        assert!({exp_log});
        {exp_res}
        std::mem::forget(out); std::mem::forget(rs); std::mem::forget(cache);"""
            h = Harness(f"arm_{variant}_{cname}", body, unwind=1, stubs=[("Expr::eval_rec", "oracle_eval_rec")], heavy=True, mandatory=True,
                        native_body=native_body(variant, n, kinds, exp_log, exp_res, False), abstract=True,
                        meta={"node": variant, "arm": rhs[:160], "case": cname,
                              "asserted": "the arm forwards its sub-expressions in field order to the lazy helper and returns (the post-processing of) its result"})
            h.quick = False
            h.mandatory = False
            hs.append(h)
    preamble = SAME_RES + "\n" + "\n".join(fns) + "\n"
    return preamble, hs


def native_body(variant, n, kinds, exp_log, exp_res, has_index, small=""):
    """Native replay through the public API: the node over probe() calls (call-logging, non-cacheable user function)."""
    if has_index:
        build = "Expr::Index(Box::new(native::probe(0)), Index::Vec(0))"
    else:
        build = f"Expr::{variant}(" + ", ".join(f"Box::new(native::probe({i}))" for i in range(n)) + ")"
    res = exp_res.replace("plan_val(", "plan_val(")
    return f"""
        {c05.draw(max(n, 1))}
        {small}
        {c05.set_plan(kinds)}
        let op_ok = inp.bool(); let op_ret = inp.i128();
        let idxv = Index::Vec(0);
        let out = native::run({build});
        show("result", &out); show("calls", &unsafe {{ LOG }}); show("ncalls", &unsafe {{ NLOG }});
        assert!({exp_log});
        {res.replace('Err(Error::DivisionByZero)', 'Err(_)')}"""
