"""The REFERENCE syntax of the rule language, written from the statements of C07 / C14 (not from the source).

Loosest to tightest: if/then/else; and, or; == = != > < >= <=; + -; * / %; & | ^; contains/in; unary - and !;
.field/.index access; atoms.  Every binary level is left-associative, contains/in cannot be chained (its operands
are access-level expressions), `x in y` means `y contains x`, parentheses only group, alternative spellings denote
the same node.  A rule is `( @ key : expr ; )* expr`.
"""
from .grammar import Prod

BIN_LEVELS = [
    ("Log", [("and", "And"), ("or", "Or")]),
    ("Cmp", [("==", "Equals"), ("=", "Equals"), ("!=", "NotEquals"), (">", "GreaterThan"), ("<", "LessThan"),
             (">=", "GreaterThanEquals"), ("<=", "LessThanEquals")]),
    ("Sum", [("+", "Add"), ("-", "Sub")]),
    ("Prod", [("*", "Mult"), ("/", "Div"), ("%", "Rem")]),
    ("Bit", [("&", "BitAnd"), ("|", "BitOr"), ("^", "BitXor")]),
]
FUNCS = {"int": "Int", "float": "Float", "dec": "Dec", "date_time": "DateTime", "datetime": "DateTime",
         "duration": "Duration", "is_some": "Some", "some": "Some", "is_none": "None", "none": "None",
         "to_upper": "UpperCase", "uppercase": "UpperCase", "to_lower": "LowerCase", "lowercase": "LowerCase",
         "trim": "Trim", "round": "Round", "floor": "Floor", "fract": "Fract", "year": "Year", "month": "Month",
         "week": "Week", "day": "Day", "hour": "Hour", "minute": "Minute", "second": "Second"}
LITERAL_CLASSES = {"STRING": "String", "INT": "IntDec", "HEX_INT": "IntHex", "OCT_INT": "IntOct", "BIN_INT": "IntBin",
                   "FLOAT": "Float", "DECIMAL": "Decimal"}
OTHER_LITERALS = ["then", "else", "if", "contains", "in", ".", "(", ")", "[", "]", "{", "}", ",", ":", ";", "@", "!", "-",
                  "true", "false", "none"]
# canonical lexeme of each token class (one representative, as the quantifier of C07 says)
CLASS_LEXEME = {"STRING": '"s"', "INT": "i1", "HEX_INT": "0x1", "OCT_INT": "0o1", "BIN_INT": "0b1", "FLOAT": "f1.5",
                "DECIMAL": "d1.5", "IDENT": "abc", "INDEX": "7"}


def T(text):
    return "T:" + text


def C(cls):
    return "C:" + cls


def literals():
    lits = set(OTHER_LITERALS) | set(FUNCS)
    for _, ops in BIN_LEVELS:
        lits |= {o for o, _ in ops}
    return lits


def reference():
    """Returns (prods, nonterminals, start symbols)."""
    P = []
    nts = []

    def nt(name):
        if name not in nts:
            nts.append(name)
        return name

    def add(lhs, rhs, action):
        P.append(Prod(nt(lhs), rhs, action, text="reference"))

    E = "R_Expr"
    add(E, ["R_If"], ("pass", 0))
    add("R_If", [T("if"), "R_If", T("then"), "R_If", T("else"), "R_If"], ("node", "If", [("sub", 1), ("sub", 3), ("sub", 5)]))
    prev = "R_If"
    chain = [name for name, _ in BIN_LEVELS]
    add("R_If", ["R_" + chain[0]], ("pass", 0))
    for k, (name, ops) in enumerate(BIN_LEVELS):
        A = "R_" + name
        B = "R_" + chain[k + 1] if k + 1 < len(chain) else "R_Contains"
        for op, kind in ops:
            add(A, [A, T(op), B], ("node", kind, [("sub", 0), ("sub", 2)]))     # left-associative
        add(A, [B], ("pass", 0))
    add("R_Contains", ["R_Access", T("contains"), "R_Access"], ("node", "Contains", [("sub", 0), ("sub", 2)]))
    add("R_Contains", ["R_Access", T("in"), "R_Access"], ("node", "Contains", [("sub", 2), ("sub", 0)]))
    add("R_Contains", ["R_Unary"], ("pass", 0))
    add("R_Unary", [T("-"), "R_Unary"], ("node", "Neg", [("sub", 1)]))
    add("R_Unary", [T("!"), "R_Unary"], ("node", "Not", [("sub", 1)]))
    add("R_Unary", ["R_Access"], ("pass", 0))
    add("R_Access", ["R_Access", T("."), C("IDENT")], ("node", "IndexField", [("sub", 0), ("tok", 2)]))
    add("R_Access", ["R_Access", T("."), C("INDEX")], ("node", "IndexNum", [("sub", 0), ("tok", 2)]))
    add("R_Access", ["R_Atom"], ("pass", 0))
    for kw, kind in FUNCS.items():
        add("R_Atom", [T(kw), T("("), E, T(")")], ("node", kind, [("sub", 2)]))
    add("R_Atom", [C("IDENT"), T("("), E, T(")")], ("node", "Function", [("tok", 0), ("sub", 2)]))
    add("R_Atom", [C("IDENT")], ("node", "Reference", [("tok", 0)]))
    add("R_Atom", [T(":"), C("IDENT")], ("node", "Symbol", [("tok", 1)]))
    for cls, kind in LITERAL_CLASSES.items():
        add("R_Atom", [C(cls)], ("leaf", kind, 0))
    add("R_Atom", [T("true")], ("leaf", "True", 0))
    add("R_Atom", [T("false")], ("leaf", "False", 0))
    add("R_Atom", [T("none")], ("leaf", "NoneLit", 0))
    add("R_Atom", [T("("), E, T(")")], ("pass", 1))
    # lists: items separated by commas, optional trailing comma
    add("R_Items", [], ("list", []))
    add("R_Items", ["R_ItemsNE"], ("pass", 0))
    add("R_Items", ["R_ItemsNE", T(",")], ("pass", 0))
    add("R_ItemsNE", [E], ("list", [("item", 0)]))
    add("R_ItemsNE", ["R_ItemsNE", T(","), E], ("list", [("elems", 0), ("item", 2)]))
    add("R_Atom", [T("["), "R_Items", T("]")], ("node", "Vec", [("elems", 1)]))
    add("R_Entry", [C("IDENT"), T(":"), E], ("pair", 0, 2))
    add("R_Entries", [], ("list", []))
    add("R_Entries", ["R_EntriesNE"], ("pass", 0))
    add("R_Entries", ["R_EntriesNE", T(",")], ("pass", 0))
    add("R_EntriesNE", ["R_Entry"], ("list", [("item", 0)]))
    add("R_EntriesNE", ["R_EntriesNE", T(","), "R_Entry"], ("list", [("elems", 0), ("item", 2)]))
    add("R_Atom", [T("{"), "R_Entries", T("}")], ("node", "Map", [("elems", 1)]))
    # rules
    add("R_Meta", [T("@"), C("IDENT"), T(":"), E, T(";")], ("pair", 1, 3))
    add("R_Metas", [], ("list", []))
    add("R_Metas", ["R_Metas", "R_Meta"], ("list", [("elems", 0), ("item", 1)]))
    add("R_Rule", ["R_Metas", E], ("node", "Rule", [("elems", 0), ("sub", 1)]))
    return P, nts, {"Expr": E, "Rule": "R_Rule"}


# Public constructor API of Expr (name -> node kind, number of sub-expression arguments). Written from the public
# API documentation; checked against the real code by the Kani constructor harnesses of C07.
REF_CTORS = {
    "iif": ("If", 3), "not": ("Not", 1), "neg": ("Neg", 1), "some": ("Some", 1), "none": ("None", 1), "int": ("Int", 1),
    "float": ("Float", 1), "dec": ("Dec", 1), "datetime": ("DateTime", 1), "duration": ("Duration", 1), "mult": ("Mult", 2),
    "div": ("Div", 2), "rem": ("Rem", 2), "add": ("Add", 2), "sub": ("Sub", 2), "eq": ("Equals", 2), "neq": ("NotEquals", 2),
    "gt": ("GreaterThan", 2), "gte": ("GreaterThanEquals", 2), "lt": ("LessThan", 2), "lte": ("LessThanEquals", 2),
    "and": ("And", 2), "or": ("Or", 2), "bitwise_and": ("BitAnd", 2), "bitwise_or": ("BitOr", 2), "bitwise_xor": ("BitXor", 2),
    "contains": ("Contains", 2), "uppercase": ("UpperCase", 1), "lowercase": ("LowerCase", 1), "trim": ("Trim", 1),
    "round": ("Round", 1), "floor": ("Floor", 1), "fract": ("Fract", 1), "year": ("Year", 1), "month": ("Month", 1),
    "week": ("Week", 1), "day": ("Day", 1), "hour": ("Hour", 1), "minute": ("Minute", 1), "second": ("Second", 1),
}
# constructors with a name argument
REF_NAMED_CTORS = {"func": ("Function", ["name", "sub"]), "reff": ("Reference", ["name"]), "symbol": ("Symbol", ["name"])}


# ---------------------------------------------------------------------------------------------------------------
# Reference LEXICAL structure (statement of C08), written independently of the source's regexes.
#   keywords and punctuation: exact text; a word is a keyword only when it matches one exactly (longest match),
#   otherwise an identifier
#   literals: i<sign?><digits> | 0x<hex+> | 0o<octal+> | 0b<binary+> | f<sign?><number><exponent?> | d<sign?><number>
#             where <number> is digits, digits.digits or .digits;  "..." with backslash escapes
#   layout: Unicode white space and `//` to the end of the line, both insignificant
# Note: the octal token admits the digit 8 (`0o8`): it is one token whose numeric conversion fails, i.e. a parse error,
# which is what the statement requires of an ill-formed literal.
REF_LEX_CLASSES = [
    ("STRING", r'"([^"\\]|\\.)*"'),
    ("INT", r"i[+-]?[0-9]+"),
    ("HEX_INT", r"0x[0-9a-fA-F]+"),
    ("OCT_INT", r"0o[0-8]+"),
    ("BIN_INT", r"0b[01]+"),
    ("FLOAT", r"f[+-]?([0-9]+(\.[0-9]+)?|\.[0-9]+)([eE][+-]?[0-9]+)?"),
    ("DECIMAL", r"d[+-]?([0-9]+(\.[0-9]+)?|\.[0-9]+)"),
]
REF_LEX_LOW = [("IDENT", r"[a-zA-Z][a-zA-Z0-9_]*"), ("INDEX", r"[0-9]+")]
REF_LEX_SKIP = [r"\s+", r"//[^\n\r]*[\n\r]*"]


def reference_lexer():
    from .lexer import Lexer, Pattern
    pats = []
    for lit in sorted(literals()):
        pats.append(Pattern("T:" + lit, "lit", lit, 0, False))
    for cls, rx in REF_LEX_CLASSES:
        pats.append(Pattern("C:" + cls, "re", rx, 0, False))
    for cls, rx in REF_LEX_LOW:
        pats.append(Pattern("C:" + cls, "re", rx, 1, False))
    for k, rx in enumerate(REF_LEX_SKIP):
        pats.append(Pattern(f"__skip{k}", "re", rx, 0, True))
    return Lexer(pats)
