"""E3 scenarios: one level of the real evaluator (`Expr::eval_rec` from its MIR) for every node kind, against the statements' specification.

The root node is built with opaque leaf children; evaluating a leaf is an oracle that logs the evaluation and returns an arbitrary
(symbolic) result or error after an arbitrary number of Pending polls. Everything between the root call and the oracle is the real
MIR of /repo's current tree: the `match` of the dispatcher, the lazy helpers, `index`, `EvalContext::reference/symbol/call_function`,
`RuleSet::call_function`, `UserFunctions::call/get`, `call_function`, `eval_vec`, `eval_map`, `bool::try_from(Value)`, the error
constructors. Strict operator functions (signature (Value[, Value]) -> Result<Value>) are recorders here; each of them is decided
against the operator table by the Kani cells of C01-C04.
"""
import re

import z3

from .mir import std
from .mir.harness import (Case, Env, POLL_PENDING, POLL_READY, check_paths, drive, leaf, res_is_err_opaque, res_is_err_variant,
                          res_is_ok_val)
from .mir.symex import (ERR, Agg, BoolV, Cell, Fut, IntV, MapV, Obj, Opq, Ref, Str, SymVal, Unsupported, VAL, VecV, dbg_of, is_tag,
                        map_at, map_has, val_eq, vec_at, vec_len)

EVAL_REC = "expr::eval::<impl expr::Expr>::eval_rec"
DYN_FUT = "std::pin::Pin<std::boxed::Box<dyn std::future::Future>>"

ANYHOW = z3.DeclareSort("AnyhowError")
fn_registered = z3.Function("fn_registered", z3.StringSort(), z3.BoolSort())
fn_cacheable = z3.Function("fn_cacheable", z3.StringSort(), z3.BoolSort())
sym_has = z3.Function("sym_has", z3.StringSort(), z3.BoolSort())
sym_at = z3.Function("sym_at", z3.StringSort(), VAL)
cache_has = z3.Function("cache_has", z3.StringSort(), z3.BoolSort())
cache_at = z3.Function("cache_at", z3.StringSort(), VAL)


class World(Env):
    """Environment of one evaluation: a ruleset with an arbitrary registry of user functions and an arbitrary symbol table (abstract
    maps), arbitrary facts, an arbitrary function cache."""

    def __init__(self, prog, record_ops=True, cache="abstract"):
        super().__init__()
        self.prog = prog
        self.record_ops = record_ops
        self.cache_mode = cache
        self.inline_root = None
        self.recorders = {}
        for name, f in prog.funcs.items():
            if "{closure" in name or not name.startswith("expr::eval::"):
                continue
            ptys = [t for _, t in f.params]
            # an operator function: synchronous, takes its operand(s) as Values (possibly with extra non-expression parameters such as a
            # comparison selector) and returns Result<Value>
            if (any(t == "value::Value" for t in ptys) and f.ret == "std::result::Result<value::Value, error::Error>"
                    and not any("expr::Expr" in t or "EvalContext" in t for t in ptys)):
                self.recorders[name] = [i for i, t in enumerate(ptys) if t == "value::Value"]

    def begin(self, ex):
        super().begin(ex)
        self.n_apply = 0
        self.n_call = 0
        self.facts = z3.Const("facts", VAL)
        self.facts_cell = Cell(SymVal(self.facts), ro=True, name="facts")
        self.cache_cell = Cell(MapV([("abs", "cache", 0)] if self.cache_mode == "abstract" else []), name="function-cache")
        ufs = Agg("UserFunctions", None, {0: MapV([("abs", "functions", 0)], vkind="userfn")})
        syms = Agg("Symbols", None, {0: MapV([("abs", "symbols", 0)])})
        self.rules_vec = VecV([])
        self.ruleset_cell = Cell(Agg("RuleSet", None, {0: self.rules_vec, 1: ufs, 2: syms}), ro=True, name="ruleset")

    def mk_ctx(self):
        c = Agg("EvalContext", None, {0: Ref(self.ruleset_cell), 1: Ref(self.cache_cell, (), True), 2: Ref(self.facts_cell)})
        return Ref(Cell(c, name="ctx"), (), True)

    # -- abstract maps
    def abs_map_has(self, ex, kind, mid, key):
        if kind == "functions":
            return fn_registered(key.t)
        if kind == "symbols":
            return sym_has(key.t)
        if kind == "cache":
            return cache_has(key.t)
        return super().abs_map_has(ex, kind, mid, key)

    def abs_map_at(self, ex, kind, mid, key):
        if kind == "functions":
            return std.mkbox(Obj("userfn", key.t), "registered-function")
        if kind == "symbols":
            return SymVal(sym_at(key.t))
        if kind == "cache":
            return SymVal(cache_at(key.t))
        return super().abs_map_at(ex, kind, mid, key)

    # -- overrides
    def override(self, ex, callee, args):
        if self.record_ops:
            f = ex.prog.resolve(callee)
            if f is not None and f.name in self.recorders:
                n = self.n_apply
                self.n_apply += 1
                terms = [ex.to_val(args[i]) for i in self.recorders[f.name]]
                ex.log.append(("apply", f.name.split("::")[-1], terms))
                okb = z3.Bool(f"apply{n}.ok")
                if ex.choose([("ok", okb), ("err", z3.Not(okb))], "apply-result") == "ok":
                    return std.ok(SymVal(z3.Const(f"apply{n}.val", VAL)))
                return std.err(Opq("Error", z3.Const(f"apply{n}.err", ERR)))
        if callee.startswith("<expr::eval::EMPTY_RULES as std::ops::Deref>::deref"):
            return Ref(self.ruleset_cell)
        return super().override(ex, callee, args)

    # -- user functions (environment)
    def userfn_method(self, ex, meth, args):
        f = std.deref_all(ex, args[0])
        if not (isinstance(f, Obj) and f.kind == "userfn"):
            raise Unsupported(f"user-function method on {f}")
        if meth == "cacheable":
            return BoolV(fn_cacheable(f.key))
        if meth == "name":
            return Str(f.key)          # registry invariant (established by add_boxed_function, C15): functions[k].name() == k
        if meth == "call":
            return Fut("userfn", (f.key, ex.to_val(args[1])))
        raise Unsupported(f"user-function method {meth}")

    def poll_userfn(self, ex, fut):
        if fut.polls == 0:
            n = self.n_call
            self.n_call += 1
            name, param = fut.data
            fut.data = (name, param, n)
            ex.log.append(("call", name, param))
        name, param, n = fut.data

        def ready():
            okb = z3.Bool(f"call{n}.ok")
            if ex.choose([("ok", okb), ("err", z3.Not(okb))], "call-result") == "ok":
                return std.ok(SymVal(z3.Const(f"call{n}.val", VAL)))
            return std.err(Opq("anyhow", z3.Const(f"call{n}.err", ANYHOW)))
        return self._pending_or(ex, fut, f"call{n}", ready)


def call_ok(n):
    return z3.Bool(f"call{n}.ok")


def call_val(n):
    return z3.Const(f"call{n}.val", VAL)


def call_err(n):
    return z3.Const(f"call{n}.err", ANYHOW)


def apply_ok(n):
    return z3.Bool(f"apply{n}.ok")


def apply_val(n):
    return z3.Const(f"apply{n}.val", VAL)


def apply_err(n):
    return z3.Const(f"apply{n}.err", ERR)


# ------------------------------------------------------------------------------------------------ root nodes
expr_variants_cached = []


def expr_variants(prog):
    lay = prog.layouts
    en = lay.canon(["expr", "Expr"])
    if en not in lay.enums:
        raise Unsupported("enum Expr not found in the source")
    expr_variants_cached[:] = list(lay.enums[en])
    return en, [(v, lay.enum_tuple_types.get((en, v), [])) for v in lay.enums[en]]


def run_root(ex, world, root):
    world.inline_root = root
    root_ref = Ref(Cell(root, ro=True, name="root-expr"))
    fut = ex.call(None, EVAL_REC, [root_ref, world.mk_ctx()])
    return drive(ex, DYN_FUT, fut)


def boxed_leaf(k):
    return std.mkbox(leaf(k), f"leaf{k}")


def sorted_keys(ex, keys):
    for a, b in zip(keys, keys[1:]):
        ex.assume(z3.StrLT(a, b) if hasattr(z3, "StrLT") else a < b)


# ------------------------------------------------------------------------------------------------ result predicates
class Exp:
    """Expected result: usable as the symbolic predicate `exp(ex, res)` and, for native replay, as data (`kind`, `terms`)."""

    def __init__(self, kind, *terms):
        self.kind, self.terms = kind, terms

    def __call__(self, ex, r):
        k, t = self.kind, self.terms
        if k == "ok_val":
            return res_is_ok_val(ex, r, t[0])
        if k == "err_opq":
            return res_is_err_opaque(ex, r, t[0])
        if k == "err_var":
            return res_is_err_variant(ex, r, t[0], t[1])
        if k == "err_userfn":
            if isinstance(r, Agg) and r.ty == "Result" and r.variant == "Err":
                e = r.fields[0]
                if isinstance(e, Agg) and e.variant == "UserFunctionError":
                    fn, er = e.fields.get(0), e.fields.get(1)
                    if isinstance(fn, Str) and isinstance(er, Opq) and er.sort == "anyhow":
                        return z3.And(fn.t == t[0], er.t == t[1])
            return False
        if k == "ok_vec":
            terms = t[0]
            if isinstance(r, Agg) and r.ty == "Result" and r.variant == "Ok":
                v = r.fields[0]
                if isinstance(v, Agg) and v.ty == "Value" and v.variant == "Vec" and isinstance(v.fields[0], VecV) and v.fields[0].items is not None:
                    items = v.fields[0].items
                    if len(items) != len(terms):
                        return False
                    return z3.And([ex.to_val(x) == y for x, y in zip(items, terms)]) if terms else True
            return False
        if k == "ok_map":
            pairs = t[0]
            if isinstance(r, Agg) and r.ty == "Result" and r.variant == "Ok":
                v = r.fields[0]
                if isinstance(v, Agg) and v.ty == "Value" and v.variant == "Map" and isinstance(v.fields[0], MapV):
                    layers = v.fields[0].layers
                    if any(l[0] != "kv" for l in layers) or len(layers) != len(pairs):
                        return False
                    return z3.And([z3.And(l[1].t == kk, ex.to_val(l[2]) == y) for l, (kk, y) in zip(layers, pairs)]) if pairs else True
            return False
        raise Unsupported(f"expectation kind {k}")


def ok_val(term):
    return Exp("ok_val", term)


def err_opq(term):
    return Exp("err_opq", term)


def err_var(variant, payload=None):
    return Exp("err_var", variant, payload)


def err_userfn(name, errterm):
    return Exp("err_userfn", name, errterm)


def ok_vec(terms):
    return Exp("ok_vec", terms)


def ok_map(pairs):
    """pairs: [(key term, value term)] with pairwise distinct keys (assumed by the scenario)."""
    return Exp("ok_map", pairs)


def cache_post(world, expect):
    """expect: None (cache untouched) or (key term, value term): exactly that binding was added."""
    def f(ex):
        m = world.cache_cell.v
        kv = [l for l in m.layers if l[0] == "kv"]
        if len([l for l in m.layers if l[0] == "abs"]) != (1 if world.cache_mode == "abstract" else 0):
            return False
        if expect is None:
            return not kv
        if len(kv) != 1:
            return False
        return z3.And(kv[0][1].t == expect[0], ex.to_val(kv[0][2]) == expect[1])
    return f


# ------------------------------------------------------------------------------------------------ specifications per node kind
L = Env


def ev(k):
    return ("eval", k)


def spec_strict(n, fname_holder):
    """n sub-expressions evaluated once each, left to right; first error ends the evaluation; then exactly one operator application
    on the sub-results in that order; its result is the node's result."""
    cases = []
    vals = [L.leaf_val(i) for i in range(n)]
    for i in range(n):
        g = z3.And([L.leaf_ok(j) for j in range(i)] + [z3.Not(L.leaf_ok(i))])
        cases.append(Case(f"operand{i}-fails", g, [ev(j) for j in range(i + 1)], err_opq(L.leaf_err(i))))
    allok = z3.And([L.leaf_ok(j) for j in range(n)])
    full = [ev(j) for j in range(n)]

    # the function name is not fixed by the specification: it is recorded and cross-checked by the caller
    def log_with_apply(holder):
        class AnyName:
            def __eq__(self, other):
                holder.append(other)
                return True

            def __repr__(self):
                return "<operator fn>"
        return full + [("apply", AnyName(), vals)]
    cases.append(Case("applied-ok", z3.And(allok, apply_ok(0)), log_with_apply(fname_holder), ok_val(apply_val(0))))
    cases.append(Case("applied-err", z3.And(allok, z3.Not(apply_ok(0))), log_with_apply(fname_holder), err_opq(apply_err(0))))
    return cases


def spec_if():
    ok0, ok1, ok2 = (L.leaf_ok(i) for i in range(3))
    v0 = L.leaf_val(0)
    T, F = VAL.Bool(True), VAL.Bool(False)
    return [
        Case("cond-fails", z3.Not(ok0), [ev(0)], err_opq(L.leaf_err(0))),
        Case("cond-not-bool", z3.And(ok0, z3.Not(VAL.is_Bool(v0))), [ev(0)], err_var("InvalidType")),
        Case("then-ok", z3.And(ok0, v0 == T, ok1), [ev(0), ev(1)], ok_val(L.leaf_val(1))),
        Case("then-err", z3.And(ok0, v0 == T, z3.Not(ok1)), [ev(0), ev(1)], err_opq(L.leaf_err(1))),
        Case("else-ok", z3.And(ok0, v0 == F, ok2), [ev(0), ev(2)], ok_val(L.leaf_val(2))),
        Case("else-err", z3.And(ok0, v0 == F, z3.Not(ok2)), [ev(0), ev(2)], err_opq(L.leaf_err(2))),
    ]


def spec_andor(is_and):
    ok0, ok1 = L.leaf_ok(0), L.leaf_ok(1)
    v0, v1 = L.leaf_val(0), L.leaf_val(1)
    short, cont = (VAL.Bool(False), VAL.Bool(True)) if is_and else (VAL.Bool(True), VAL.Bool(False))
    return [
        Case("left-fails", z3.Not(ok0), [ev(0)], err_opq(L.leaf_err(0))),
        Case("left-not-bool", z3.And(ok0, z3.Not(VAL.is_Bool(v0))), [ev(0)], err_var("InvalidType")),
        Case("left-decides", z3.And(ok0, v0 == short), [ev(0)], ok_val(short)),
        Case("right-fails", z3.And(ok0, v0 == cont, z3.Not(ok1)), [ev(0), ev(1)], err_opq(L.leaf_err(1))),
        Case("right-not-bool", z3.And(ok0, v0 == cont, ok1, z3.Not(VAL.is_Bool(v1))), [ev(0), ev(1)], err_var("InvalidType")),
        Case("right-decides", z3.And(ok0, v0 == cont, ok1, VAL.is_Bool(v1)), [ev(0), ev(1)], ok_val(v1)),
    ]


def spec_eq(negate):
    ok0, ok1 = L.leaf_ok(0), L.leaf_ok(1)
    v0, v1 = L.leaf_val(0), L.leaf_val(1)
    none_res = VAL.Bool(bool(negate))
    eqres = val_eq(v0, v1)
    return [
        Case("left-fails", z3.Not(ok0), [ev(0)], err_opq(L.leaf_err(0))),
        Case("left-none", z3.And(ok0, VAL.is_None_(v0)), [ev(0)], ok_val(none_res)),
        Case("right-fails", z3.And(ok0, z3.Not(VAL.is_None_(v0)), z3.Not(ok1)), [ev(0), ev(1)], err_opq(L.leaf_err(1))),
        Case("compared", z3.And(ok0, z3.Not(VAL.is_None_(v0)), ok1), [ev(0), ev(1)],
             ok_val(VAL.Bool(z3.Not(eqres) if negate else eqres))),
    ]


def spec_seq(n):
    cases = []
    for i in range(n):
        g = z3.And([L.leaf_ok(j) for j in range(i)] + [z3.Not(L.leaf_ok(i))])
        cases.append(Case(f"item{i}-fails", g, [ev(j) for j in range(i + 1)], err_opq(L.leaf_err(i))))
    return cases, z3.And([L.leaf_ok(j) for j in range(n)]) if n else z3.BoolVal(True)


def spec_reference(name, world_facts):
    f = world_facts
    m = VAL.m(f)
    return [
        Case("whole-input", name == z3.StringVal("facts"), [], ok_val(f)),
        Case("field-present", z3.And(name != z3.StringVal("facts"), VAL.is_Map(f), map_has(m, name)), [], ok_val(map_at(m, name))),
        Case("field-missing", z3.And(name != z3.StringVal("facts"), VAL.is_Map(f), z3.Not(map_has(m, name))), [], err_var("UnknownRef", name)),
        Case("input-not-a-map", z3.And(name != z3.StringVal("facts"), z3.Not(VAL.is_Map(f))), [], err_var("InvalidType")),
    ]


def spec_symbol(name):
    return [
        Case("symbol-present", sym_has(name), [], ok_val(sym_at(name))),
        Case("symbol-missing", z3.Not(sym_has(name)), [], err_var("InvalidSymbol", name)),
    ]


def spec_index(kind, idx):
    ok0, v0 = L.leaf_ok(0), L.leaf_val(0)
    cases = [Case("base-fails", z3.Not(ok0), [ev(0)], err_opq(L.leaf_err(0))),
             Case("base-none", z3.And(ok0, VAL.is_None_(v0)), [ev(0)], ok_val(VAL.None_))]
    if kind == "Map":
        m = VAL.m(v0)
        cases += [
            Case("key-present", z3.And(ok0, VAL.is_Map(v0), map_has(m, idx)), [ev(0)], ok_val(map_at(m, idx))),
            Case("key-missing", z3.And(ok0, VAL.is_Map(v0), z3.Not(map_has(m, idx))), [ev(0)], ok_val(VAL.None_)),
            Case("wrong-kind", z3.And(ok0, z3.Not(VAL.is_Map(v0)), z3.Not(VAL.is_None_(v0))), [ev(0)], err_var("InvalidType")),
        ]
    else:
        v = VAL.v(v0)
        cases += [
            Case("in-range", z3.And(ok0, VAL.is_Vec(v0), idx < vec_len(v)), [ev(0)], ok_val(vec_at(v, idx))),
            Case("out-of-range", z3.And(ok0, VAL.is_Vec(v0), idx >= vec_len(v)), [ev(0)], ok_val(VAL.None_)),
            Case("wrong-kind", z3.And(ok0, z3.Not(VAL.is_Vec(v0)), z3.Not(VAL.is_None_(v0))), [ev(0)], err_var("InvalidType")),
        ]
    return cases


def spec_function(world, name):
    ok0, v0 = L.leaf_ok(0), L.leaf_val(0)
    key = z3.Concat(name, z3.StringVal("-"), dbg_of(v0))
    reg = fn_registered(name)
    cach = fn_cacheable(name)
    hit = cache_has(key) if world.cache_mode == "abstract" else z3.BoolVal(False)
    called = [ev(0), ("call", name, v0)]
    miss = z3.And(ok0, reg, z3.Or(z3.Not(cach), z3.Not(hit)))
    return [
        Case("argument-fails", z3.Not(ok0), [ev(0)], err_opq(L.leaf_err(0)), cache_post(world, None)),
        Case("unknown-function", z3.And(ok0, z3.Not(reg)), [ev(0)], err_var("UnknownUserFunction", name), cache_post(world, None)),
        Case("cache-hit", z3.And(ok0, reg, cach, hit), [ev(0)], ok_val(cache_at(key)), cache_post(world, None)),
        Case("called-ok-cached", z3.And(miss, cach, call_ok(0)), called, ok_val(call_val(0)), cache_post(world, (key, call_val(0)))),
        Case("called-ok-not-cacheable", z3.And(miss, z3.Not(cach), call_ok(0)), called, ok_val(call_val(0)), cache_post(world, None)),
        Case("called-err", z3.And(miss, z3.Not(call_ok(0))), called, err_userfn(name, call_err(0)), cache_post(world, None)),
    ]


# ------------------------------------------------------------------------------------------------ the dispatcher, node kind by node kind
LAZY = {"If", "And", "Or", "Equals", "NotEquals"}


def dispatcher_obligations(run, prog, tier, only=None, pendings=1, kinds=None, prefix="node"):
    """One obligation per (node kind, shape). Returns [(obligation dict, replay scenario)]"""
    en, variants = expr_variants(prog)
    out = []
    called = {}
    n_seq = (0, 1, 2, 3) if tier == "thorough" else (0, 1, 2)
    for vname, ftys in variants:
        if kinds is not None and vname not in kinds:
            continue
        shapes = []          # (suffix, build(ex, world) -> root, cases builder(world) -> cases, scenario)
        nbox = sum(1 for t in ftys if t == "Box<Expr>")
        if ftys == ["Value"]:
            lit = z3.Const("literal", VAL)
            shapes.append(("", lambda ex, w, lit=lit: Agg(en, vname, {0: SymVal(lit)}), lambda w, lit=lit: [Case("literal", z3.BoolVal(True), [], ok_val(lit))]))
        elif ftys == ["String"] and vname == "Reference":
            name = z3.String("ref.name")
            shapes.append(("", lambda ex, w, name=name: Agg(en, vname, {0: Str(name)}), lambda w, name=name: spec_reference(name, w.facts)))
        elif ftys == ["String"] and vname == "Symbol":
            name = z3.String("sym.name")
            shapes.append(("", lambda ex, w, name=name: Agg(en, vname, {0: Str(name)}), lambda w, name=name: spec_symbol(name)))
        elif vname == "Index" and ftys == ["Box<Expr>", "Index"]:
            key = z3.String("index.key")
            pos = z3.Int("index.pos")

            def b_map(ex, w, key=key):
                return Agg(en, vname, {0: boxed_leaf(0), 1: Agg("Index", "Map", {0: Str(key)})})

            def b_vec(ex, w, pos=pos):
                ex.assume(z3.And(pos >= 0, pos <= (1 << 64) - 1))
                return Agg(en, vname, {0: boxed_leaf(0), 1: Agg("Index", "Vec", {0: IntV(pos, "usize")})})
            shapes.append(("_field", b_map, lambda w, key=key: spec_index("Map", key)))
            shapes.append(("_position", b_vec, lambda w, pos=pos: spec_index("Vec", pos)))
        elif vname == "Function" and ftys == ["String", "Box<Expr>"]:
            name = z3.String("fn.name")
            def b_fn(ex, w, name=name):
                # registered names are identifiers (invariant established by add_boxed_function, C15); `probe` is the replay's own leaf function
                ex.assume(z3.Implies(fn_registered(name), z3.And(z3.InRe(name, IDENT), name != z3.StringVal("probe"))))
                return Agg(en, vname, {0: Str(name), 1: boxed_leaf(0)})
            shapes.append(("", b_fn, lambda w, name=name: spec_function(w, name)))
        elif vname == "If" and nbox == 3:
            shapes.append(("", lambda ex, w: Agg(en, vname, {i: boxed_leaf(i) for i in range(3)}), lambda w: spec_if()))
        elif vname in ("And", "Or") and nbox == 2:
            shapes.append(("", lambda ex, w: Agg(en, vname, {i: boxed_leaf(i) for i in range(2)}), lambda w, a=(vname == "And"): spec_andor(a)))
        elif vname in ("Equals", "NotEquals") and nbox == 2:
            shapes.append(("", lambda ex, w: Agg(en, vname, {i: boxed_leaf(i) for i in range(2)}), lambda w, n=(vname == "NotEquals"): spec_eq(n)))
        elif vname == "Vec" and ftys == ["Vec<Expr>"]:
            for n in n_seq:
                def b(ex, w, n=n):
                    return Agg(en, vname, {0: VecV([leaf(i) for i in range(n)])})

                def c(w, n=n):
                    cases, allok = spec_seq(n)
                    return cases + [Case("all-items", allok, [ev(j) for j in range(n)], ok_vec([L.leaf_val(j) for j in range(n)]))]
                shapes.append((f"_{n}", b, c))
        elif vname == "Map" and ftys == ["BTreeMap<String,Expr>"]:
            for n in n_seq:
                keys = [z3.String(f"mapkey{i}") for i in range(n)]

                def b(ex, w, n=n, keys=keys):
                    sorted_keys(ex, keys)
                    return Agg(en, vname, {0: MapV([("kv", Str(keys[i]), leaf(i)) for i in range(n)])})

                def c(w, n=n, keys=keys):
                    cases, allok = spec_seq(n)
                    return cases + [Case("all-entries", allok, [ev(j) for j in range(n)], ok_map([(keys[j], L.leaf_val(j)) for j in range(n)]))]
                shapes.append((f"_{n}", b, c))
        elif nbox == len(ftys) and nbox in (1, 2):
            holder = called.setdefault(vname, [])
            shapes.append(("", lambda ex, w, nbox=nbox: Agg(en, vname, {i: boxed_leaf(i) for i in range(nbox)}),
                           lambda w, nbox=nbox, holder=holder: spec_strict(nbox, holder)))
        else:
            d = run.obligation(f"{prefix}_{vname}", "dispatcher", "inconclusive", 0.0, reason=f"node kind with unrecognised field types {ftys}")
            out.append((d, None))
            continue
        for suffix, build, mkcases in shapes:
            oid = f"{prefix}_{vname}{suffix}"
            if only and only not in oid:
                continue
            world = World(prog, record_ops=vname in called)
            world.max_pending = pendings

            def body(ex, build=build, world=world):
                return run_root(ex, world, build(ex, world))
            world.begin(None)
            cases = mkcases(world)
            d = check_paths(run, prog, world, oid, body, cases, "dispatcher-level", meta={"node": vname, "pendings_per_await": pendings})
            if vname in called and called[vname]:
                d["operator_fn"] = sorted(set(called[vname]))
            out.append((d, {"node": vname, "shape": suffix}))
    return out


# ------------------------------------------------------------------------------------------------ driver glue
def decide_dispatcher(run, prog, helper, kinds=None, only=None, mandatory=True, prefix="node", pendings=1):
    """Run the dispatcher-level obligations for the given node kinds, replay counterexamples natively, record findings."""
    from . import e3replay
    res = dispatcher_obligations(run, prog, run.tier, only=only, pendings=pendings, kinds=kinds, prefix=prefix)
    fns = {}
    for d, sc in res:
        if d["verdict"] == "fail" and sc is not None:
            e3replay.confirm(run, helper, d["id"], d, lambda cex, sc=sc: e3replay.dispatcher_scenario(sc["node"], sc["shape"], cex))
        else:
            for c in d.get("cex", []):
                c.pop("_model", None)
                c.pop("_case", None)
        if d["verdict"] == "inconclusive":
            run.inconc(d["id"], d.get("reason", "no verdict"), mandatory=mandatory)
        if d.get("operator_fn"):
            fns[d["node"]] = d["operator_fn"]
    run.functions_encoded.update(sorted(prog.executed))
    run.extra.setdefault("mir", {})["functions_executed_from_mir"] = sorted(prog.executed)
    run.extra["mir"]["std_contract_models"] = sorted(prog.stats.get("std_models", []))
    run.extra["mir"]["solver_queries"] = prog.stats["queries"]
    run.extra["mir"]["paths"] = prog.stats["paths"]
    return res, fns


E3_ASSUMPTIONS = [
    "E3: rustc's MIR dump (optimized_mir, coroutines after the state transform) of the snapshot is executed symbolically; rustc's lowering "
    "from source to MIR and from MIR to machine code is trusted",
    "E3: std / dependency functions are contract models (listed under coverage.mir.std_contract_models); drop glue is not executed",
    "E3: Value::clone and Value == Value are contracts (structural copy; structural equality with IEEE floats) - the derived impls are "
    "decided by the Kani cells of C02",
    "E3: a sub-expression is an oracle that returns an arbitrary value or error after at most N Pending polls (N per tier); "
    "a user function likewise; the registry / symbol table / cache / input are arbitrary (uninterpreted) maps",
    "E3: registry invariant functions[k].name() == k (established by add_boxed_function, decided in C15)",
]


# ================================================================================================ C09: RuleSet::evaluate_value
class OutcomesExp(Exp):
    def __init__(self, k):
        super().__init__("outcomes", k)

    def __call__(self, ex, r):
        k = self.terms[0]
        if not (isinstance(r, Agg) and r.ty == "Result" and r.variant == "Ok"):
            return False
        v = r.fields[0]
        if not (isinstance(v, VecV) and v.items is not None and len(v.items) == k):
            return False
        conds = []
        for i, o in enumerate(v.items):
            if not (isinstance(o, Agg) and o.ty == "Outcome"):
                return False
            val, rule = o.fields.get(0), o.fields.get(1)
            if not (isinstance(rule, Ref) and rule.cell is ex.h.ruleset_cell and rule.path == (("f", None, 0), ("i", i))):
                return False
            okc = res_is_ok_val(ex, val, L.leaf_val(i))
            erc = res_is_err_opaque(ex, val, L.leaf_err(i))
            conds.append(z3.If(L.leaf_ok(i), okc, erc))
        return z3.And(conds) if conds else True


class RulesWorld(World):
    def __init__(self, prog, k):
        super().__init__(prog, record_ops=False, cache="empty")
        self.k = k

    def begin(self, ex):
        super().begin(ex)
        self.rules_vec.items = [Agg("Rule", None, {0: Str(z3.String(f"rule{i}.name")), 1: MapV([]), 2: leaf(i)}) for i in range(self.k)]
        self.ctx_seen = []

    def override(self, ex, callee, args):
        if re.search(r"::eval_rec(::<.*>)?$", callee) and "closure" not in callee:
            c = std.deref_all(ex, args[1])
            if isinstance(c, Agg) and c.ty == "EvalContext":
                rs, cache, facts = c.fields.get(0), c.fields.get(1), c.fields.get(2)
                cm = ex.read_ref(cache) if isinstance(cache, Ref) else None
                if isinstance(cm, Agg) and cm.ty in ("Mutex", "RefCell", "Cell") and 0 in cm.fields:
                    cm = cm.fields[0]          # the per-call cache behind a lock / cell is still one cache per call
                self.ctx_seen.append((isinstance(rs, Ref) and rs.cell is self.ruleset_cell and not rs.path,
                                      isinstance(facts, Ref) and facts.cell is self.facts_cell and not facts.path,
                                      id(cache.cell) if isinstance(cache, Ref) else None,
                                      len(cm.layers) if isinstance(cm, MapV) else None,
                                      isinstance(cache, Ref) and cache.cell is self.cache_cell))
        return super().override(ex, callee, args)


def ruleset_obligations(run, prog, ks, pendings=1, only=None):
    out = []
    for k in ks:
        oid = f"evaluate_value_{k}_rules"
        if only and only not in oid:
            continue
        world = RulesWorld(prog, k)
        world.max_pending = pendings

        def body(ex, world=world):
            co = ex.call(None, "ruleset::RuleSet::evaluate_value", [Ref(world.ruleset_cell), Ref(world.facts_cell)])
            return drive(ex, "{async fn body of ruleset::RuleSet::evaluate_value()}", co)

        def post(ex, world=world, k=k):
            seen = world.ctx_seen
            if len(seen) != k:
                return False
            if not all(s[0] and s[1] for s in seen):
                return False          # every rule sees the ruleset and the input that were passed in
            if k and (len({s[2] for s in seen}) != 1 or seen[0][3] != 0 or seen[0][4]):
                return False          # one cache per call, created empty inside the call (not a longer-lived one), shared by the rules
            return True
        cases = [Case("outcomes", z3.BoolVal(True), [ev(i) for i in range(k)], OutcomesExp(k), post)]
        d = check_paths(run, prog, world, oid, body, cases, "ruleset-loop", meta={"rules": k, "pendings_per_await": pendings}, max_paths=40000)
        out.append((d, {"k": k}))
    return out


def ruleset_scenario(k, cex):
    from .e3replay import Concretizer, leaf_plans, probe
    C = Concretizer(cex["_model"])
    sc = {"facts": {"t": "None"}, "probes": leaf_plans(C, range(k)),
          "builder": [{"op": "probe"}] + [{"op": "rule", "name": f"r{i}", "expr": probe(i)} for i in range(k)]}
    exp = ("outcomes", [{"ok": C.value(L.leaf_val(i))} if C.boolean(L.leaf_ok(i)) else
                        {"err": {"variant": "UserFunctionError", "a": "probe", "b": f"leaf{i}"}} for i in range(k)], [f"r{i}" for i in range(k)])
    return sc, 0, exp, [["eval", i] for i in range(k)]


# ================================================================================================ C11: two calls sharing one cache
def smt_str(s):
    return '"' + "".join(c if 32 <= ord(c) < 127 and c != '"' else ('""' if c == '"' else "\\u{%x}" % ord(c)) for c in s) + '"'


IDENT_SMT = '(re.++ (re.union (re.range "a" "z") (str.to_re "_")) (re.* (re.union (re.range "a" "z") (re.range "0" "9") (str.to_re "_"))))'
_LEMMA_CACHE = {}


def cvc5_unsat(script, timeout_s=30):
    import subprocess
    import tempfile
    with tempfile.NamedTemporaryFile("w", suffix=".smt2", delete=False) as f:
        f.write(script)
        path = f.name
    try:
        p = subprocess.run(["cvc5", "--lang", "smt2", "--strings-exp", f"--tlimit={timeout_s * 1000}", path], capture_output=True, text=True,
                           timeout=timeout_s + 10)
        out = p.stdout.strip().split("\n")[0] if p.stdout.strip() else ""
    except Exception:
        out = "unknown"
    finally:
        import os
        os.unlink(path)
    return out == "unsat"


def format_injective(shape):
    """Is a format template (list of ('arg', kind) / ('lit', text)) injective in its arguments, given that every `display` argument is an
    identifier? Decided by cvc5 over strings (z3 does not finish on these): returns True only on an `unsat` answer."""
    key = json_key(shape)
    if key in _LEMMA_CACHE:
        return _LEMMA_CACHE[key]
    nargs = sum(1 for p in shape if p[0] == "arg")
    decl = []
    for side in ("a", "b"):
        for i in range(nargs):
            decl.append(f"(declare-const {side}{i} String)")
    def concat(side):
        parts, i = [], 0
        for p in shape:
            if p[0] == "arg":
                parts.append(f"{side}{i}")
                i += 1
            else:
                parts.append(smt_str(p[1]))
        return "(str.++ " + " ".join(parts) + ' "")'
    side_conds, i = [], 0
    for p in shape:
        if p[0] == "arg":
            if p[1] == "display":
                side_conds += [f"(assert (str.in_re a{i} {IDENT_SMT}))", f"(assert (str.in_re b{i} {IDENT_SMT}))"]
            i += 1
    differ = "(or " + " ".join(f"(not (= a{i} b{i}))" for i in range(nargs)) + ")" if nargs else "false"
    script = "(set-logic ALL)\n" + "\n".join(decl + side_conds) + f"\n(assert (= {concat('a')} {concat('b')}))\n(assert {differ})\n(check-sat)\n"
    ok = cvc5_unsat(script)
    _LEMMA_CACHE[key] = ok
    return ok


def json_key(shape):
    import json
    return json.dumps(shape)


IDENT = z3.Concat(z3.Union(z3.Range("a", "z"), z3.Re("_")), z3.Star(z3.Union(z3.Range("a", "z"), z3.Range("0", "9"), z3.Re("_"))))


def install_format_hook(world, lemmas):
    def format_hook(ex, shape, pieces):
        """The cache key as an uninterpreted function of the formatted arguments; injectivity of the ACTUAL template is a lemma discharged by
        cvc5 (for identifier names), and is assumed only if cvc5 proves it."""
        args = [p for p, sh in zip(pieces, shape) if sh[0] == "arg"]
        kinds = [sh for sh in shape if sh[0] == "arg"]
        f = z3.Function("fmt_" + str(abs(hash(json_key(shape))) % 100000), *([z3.StringSort()] * len(args) + [z3.StringSort()]))
        t = f(*args)
        inj = format_injective(shape)
        lemmas[json_key(shape)] = inj
        prev = getattr(ex, "fmt_apps", [])
        if inj:
            for (pf, pargs) in prev:
                if pf.eq(f):
                    guard = z3.And([fn_registered(a) for a, sh in zip(pargs + args, kinds * 2) if sh[1] == "display"] + [z3.BoolVal(True)])
                    ex.assume(z3.Implies(guard, (f(*pargs) == t) == z3.And([x == y for x, y in zip(pargs, args)])))
        ex.fmt_apps = prev + [(f, args)]
        return t
    world.format_hook = format_hook


def two_calls_obligation(run, prog, pendings=1, oid="cache_two_calls"):
    world = World(prog, record_ops=False, cache="empty")
    world.max_pending = pendings
    lemmas = {}
    install_format_hook(world, lemmas)
    n = [z3.String("call.name0"), z3.String("call.name1")]
    p = [z3.Const("call.param0", VAL), z3.Const("call.param1", VAL)]
    results = {}

    def body(ex):
        # registered names are identifiers (C15) -> contain no '-'; derived Debug of Value is injective (trusted)
        for x in n:
            ex.assume(z3.Implies(fn_registered(x), z3.InRe(x, IDENT)))
        ex.assume((dbg_of(p[0]) == dbg_of(p[1])) == (p[0] == p[1]))
        outs = []
        for i in range(2):
            co = ex.call(None, "ruleset::RuleSet::call_function", [Ref(world.ruleset_cell), Str(n[i]), SymVal(p[i]), Ref(world.cache_cell, (), True)])
            outs.append(drive(ex, "{async fn body of ruleset::RuleSet::call_function()}", co))
        return Agg("tuple", None, {0: outs[0], 1: outs[1]})
    reg = [fn_registered(x) for x in n]
    cach = [fn_cacheable(x) for x in n]
    same = z3.And(n[0] == n[1], p[0] == p[1])
    first_called = reg[0]
    first_ok = z3.And(reg[0], call_ok(0))
    reuse = z3.And(reg[1], cach[1], first_ok, cach[0], same)

    class Pair(Exp):
        def __init__(self, a, b):
            super().__init__("pair", a, b)

        def __call__(self, ex, r):
            a = self.terms[0](ex, r.fields[0])
            b = self.terms[1](ex, r.fields[1])
            if a is False or b is False:
                return False
            cs = [c for c in (a, b) if c is not True]
            return z3.And(cs) if cs else True

    def first_exp(called_idx):
        return None
    cases = []
    # enumerate the specification: (first: unknown | ok | err) x (second: unknown | reuse | called ok | called err)
    c0 = ("call", n[0], p[0])
    for f_name, f_guard, f_log, f_exp, ncalls in (
            ("first-unknown", z3.Not(reg[0]), [], err_var("UnknownUserFunction", n[0]), 0),
            ("first-ok", first_ok, [c0], ok_val(call_val(0)), 1),
            ("first-err", z3.And(reg[0], z3.Not(call_ok(0))), [c0], err_userfn(n[0], call_err(0)), 1)):
        j = ncalls          # index of the second function invocation if it happens
        c1 = ("call", n[1], p[1])
        cases.append(Case(f"{f_name}/second-unknown", z3.And(f_guard, z3.Not(reg[1])), f_log, Pair(f_exp, err_var("UnknownUserFunction", n[1]))))
        if f_name == "first-ok":
            cases.append(Case(f"{f_name}/second-reuses", z3.And(f_guard, reuse), f_log, Pair(f_exp, ok_val(call_val(0)))))
        not_reuse = z3.And(reg[1], z3.Not(reuse)) if f_name == "first-ok" else reg[1]
        cases.append(Case(f"{f_name}/second-called-ok", z3.And(f_guard, not_reuse, call_ok(j)), f_log + [c1], Pair(f_exp, ok_val(call_val(j)))))
        cases.append(Case(f"{f_name}/second-called-err", z3.And(f_guard, not_reuse, z3.Not(call_ok(j))), f_log + [c1], Pair(f_exp, err_userfn(n[1], call_err(j)))))
    d = check_paths(run, prog, world, oid, body, cases, "function-cache", meta={"calls": 2, "pendings_per_await": pendings}, solver_timeout_ms=180000)
    d["format_template_injective_lemma_cvc5"] = lemmas
    return d


def two_calls_scenario(cex):
    from .e3replay import Concretizer, lit
    C = Concretizer(cex["_model"])
    n = [z3.String("call.name0"), z3.String("call.name1")]
    p = [z3.Const("call.param0", VAL), z3.Const("call.param1", VAL)]
    names = [C.string(x) for x in n]
    builder = []
    plans = {}
    order = []
    ncall = 0
    # which invocations does the SPEC expect? planned results are handed out per function in invocation order
    case = cex["_case"]
    for e in case.log:
        nm = C.string(e[1])
        okb = C.boolean(call_ok(ncall))
        plans.setdefault(nm, []).append({"ok": C.value(call_val(ncall))} if okb else {"err": f"call{ncall}"})
        ncall += 1
    # a further (unexpected) invocation would get this marker result
    for nm in set(names):
        if C.boolean(fn_registered(z3.StringVal(nm))):
            builder.append({"op": "function", "name": nm, "cacheable": C.boolean(fn_cacheable(z3.StringVal(nm))),
                            "results": plans.get(nm, []) + [{"ok": {"t": "String", "v": "UNEXPECTED-INVOCATION"}}], "pending": 0})
    # two rules of ONE evaluation: they share the evaluation's cache, and a failing first call does not stop the second
    rules = [{"op": "rule", "name": ("first", "second")[i], "expr": {"k": "Function", "n": names[i], "c": [lit(C.value(p[i]))]}} for i in range(2)]
    sc = {"facts": {"t": "None"}, "builder": builder + rules}
    return sc, C, names


# ================================================================================================ C15: builder steps
is_reserved = z3.Function("is_reserved_keyword", z3.StringSort(), z3.BoolSort())
is_ident = z3.Function("is_valid_identifier", z3.StringSort(), z3.BoolSort())


class BuilderWorld(World):
    def __init__(self, prog, k):
        super().__init__(prog, record_ops=False, cache="empty")
        self.k = k

    def begin(self, ex):
        super().begin(ex)
        self.names = [z3.String(f"rule{i}.name") for i in range(self.k)]
        if ex is not None and self.k > 1:
            ex.assume(z3.Distinct(*self.names))          # invariant of a builder state: accepted rule names are pairwise distinct
        self.rules_vec.items = [self.mk_rule(i, self.names[i]) for i in range(self.k)]
        self.builder = Agg("Builder", None, {0: self.rules_vec, 1: self.ruleset_cell.v.fields[1], 2: self.ruleset_cell.v.fields[2]})

    @staticmethod
    def mk_rule(tag, name):
        return Agg("Rule", None, {0: Str(name), 1: MapV([]), 2: Obj("expr", f"rule-expr-{tag}")})

    def override(self, ex, callee, args):
        b = callee.split("::<")[0]
        if b.endswith("keywords::is_reserved_keyword"):
            return BoolV(is_reserved(std.as_str(ex, args[0]).t))
        if b.endswith("keywords::is_valid_identifier"):
            return BoolV(is_ident(std.as_str(ex, args[0]).t))
        return super().override(ex, callee, args)


def _rules_of(res):
    """Ok(Builder) -> list of rule Aggs, else None"""
    if isinstance(res, Agg) and res.ty == "Result" and res.variant == "Ok":
        b = res.fields[0]
        if isinstance(b, Agg) and b.ty == "Builder" and isinstance(b.fields.get(0), VecV):
            return b.fields[0].items
    return None


class RulesExp(Exp):
    """Ok(builder) whose rule list is exactly the given (name term, tag) sequence."""

    def __init__(self, expected):
        super().__init__("rules", expected)

    def __call__(self, ex, r):
        items = _rules_of(r)
        exp = self.terms[0]
        if items is None or len(items) != len(exp):
            return False
        conds = []
        for it, (nm, tag) in zip(items, exp):
            if not (isinstance(it, Agg) and it.ty == "Rule" and isinstance(it.fields.get(2), Obj) and it.fields[2].key == f"rule-expr-{tag}"):
                return False
            conds.append(it.fields[0].t == nm)
        return z3.And(conds) if conds else True


def builder_obligations(run, prog, tier, only=None):
    out = []
    ks = (0, 1, 2, 3) if tier == "thorough" else (0, 1, 2)
    # ---- with_rule: one step from an arbitrary builder holding k rules
    for k in ks:
        oid = f"with_rule_from_{k}_rules"
        if only and only not in oid:
            continue
        world = BuilderWorld(prog, k)
        new = z3.String("new.name")

        def body(ex, world=world, new=new):
            return ex.call(None, "ruleset::builder::Builder::with_rule", [world.builder, BuilderWorld.mk_rule("new", new)])
        names = [z3.String(f"rule{i}.name") for i in range(k)]
        dup = z3.Or([nm == new for nm in names]) if names else z3.BoolVal(False)
        cases = [Case("duplicate", dup, [], err_var("DuplicateRuleName", new)),
                 Case("accepted", z3.Not(dup), [], RulesExp([(names[i], i) for i in range(k)] + [(new, "new")]))]
        d = check_paths(run, prog, world, oid, body, cases, "builder-step", meta={"existing_rules": k},
                        mandatory_cases=["accepted"] + (["duplicate"] if k else []))
        out.append((d, {"op": "with_rule", "k": k}))
    # ---- with_rules: a batch of m rules onto k existing ones
    for k, m in ((0, 2), (1, 2)) + (((1, 3), (2, 2)) if tier == "thorough" else ()):
        oid = f"with_rules_{m}_onto_{k}"
        if only and only not in oid:
            continue
        world = BuilderWorld(prog, k)
        batch = [z3.String(f"batch{i}.name") for i in range(m)]

        def body(ex, world=world, batch=batch, m=m):
            return ex.call(None, "ruleset::builder::Builder::with_rules", [world.builder, VecV([BuilderWorld.mk_rule(f"b{i}", batch[i]) for i in range(m)])])
        names = [z3.String(f"rule{i}.name") for i in range(k)]
        cases = []
        prev_ok = z3.BoolVal(True)
        for i in range(m):
            earlier = names + batch[:i]
            dup_i = z3.Or([e == batch[i] for e in earlier]) if earlier else z3.BoolVal(False)
            cases.append(Case(f"batch-item-{i}-duplicate", z3.And(prev_ok, dup_i), [], err_var("DuplicateRuleName", batch[i])))
            prev_ok = z3.And(prev_ok, z3.Not(dup_i))
        cases.append(Case("all-accepted", prev_ok, [], RulesExp([(names[i], i) for i in range(k)] + [(batch[i], f"b{i}") for i in range(m)])))
        d = check_paths(run, prog, world, oid, body, cases, "builder-step", meta={"existing_rules": k, "batch": m},
                        mandatory_cases=["all-accepted"] + [f"batch-item-{i}-duplicate" for i in range(m) if i or k])
        out.append((d, {"op": "with_rules", "k": k, "m": m}))
    # ---- add_boxed_function: one step from an arbitrary registry
    oid = "add_function_step"
    if not only or only in oid:
        world = BuilderWorld(prog, 0)
        fname = z3.String("newfn.name")

        def body(ex, world=world, fname=fname):
            realistic_name(ex, fname)
            ufs_cell = Cell(world.ruleset_cell.v.fields[1], name="user-functions")
            world.ufs_cell = ufs_cell
            return ex.call(None, "function::UserFunctions::add_boxed_function", [Ref(ufs_cell, (), True), std.mkbox(Obj("userfn", fname), "new-function")])

        def registry_post(expect_added):
            def f(ex):
                m = world.ufs_cell.v.fields[0]
                kv = [l for l in m.layers if l[0] == "kv"]
                if len([l for l in m.layers if l[0] == "abs"]) != 1:
                    return False
                if not expect_added:
                    return not kv
                if len(kv) != 1:
                    return False
                fn = kv[0][2]
                inner = ex.read_ref(std.unbox(ex, fn)) if isinstance(fn, Agg) and fn.ty == "Box" else None
                if not (isinstance(inner, Obj) and inner.kind == "userfn" and inner.key.eq(fname)):
                    return False
                return kv[0][1].t == fname
            return f
        bad = z3.Or(is_reserved(fname), z3.Not(is_ident(fname)))
        okunit = Exp("ok_unit")
        cases = [Case("ill-formed-or-reserved", bad, [], err_var("InvalidFunctionName", fname), registry_post(False)),
                 Case("duplicate", z3.And(z3.Not(bad), fn_registered(fname)), [], err_var("DuplicateFunctionName", fname), registry_post(False)),
                 Case("accepted", z3.And(z3.Not(bad), z3.Not(fn_registered(fname))), [], lambda ex, r: isinstance(r, Agg) and r.ty == "Result" and r.variant == "Ok",
                      registry_post(True))]
        d = check_paths(run, prog, world, oid, body, cases, "builder-step", meta={"registry": "arbitrary"})
        out.append((d, {"op": "add_function"}))
    # ---- symbols: insert / append then lookup
    for shape in ("insert_insert", "insert_append1", "append2"):
        oid = f"symbols_{shape}_then_get"
        if only and only not in oid:
            continue
        world = BuilderWorld(prog, 0)
        a, b, q = z3.String("symA.name"), z3.String("symB.name"), z3.String("query.name")
        va, vb = z3.Const("symA.val", VAL), z3.Const("symB.val", VAL)

        def body(ex, world=world, shape=shape):
            bld = world.builder
            if shape == "insert_insert":
                bld = ex.call(None, "ruleset::builder::Builder::with_symbol::<std::string::String>", [bld, Str(a), SymVal(va)])
                bld = ex.call(None, "ruleset::builder::Builder::with_symbol::<std::string::String>", [bld, Str(b), SymVal(vb)])
            elif shape == "insert_append1":
                bld = ex.call(None, "ruleset::builder::Builder::with_symbol::<std::string::String>", [bld, Str(a), SymVal(va)])
                r = ex.call(None, "ruleset::builder::Builder::with_symbols", [bld, Agg("Symbols", None, {0: MapV([("kv", Str(b), SymVal(vb))])})])
                bld = r.fields[0]
            else:
                ex.assume(a != b)         # a map value has distinct keys
                r = ex.call(None, "ruleset::builder::Builder::with_symbols", [bld, Agg("Symbols", None, {0: MapV([("kv", Str(a), SymVal(va)), ("kv", Str(b), SymVal(vb))])})])
                bld = r.fields[0]
            rs = ex.call(None, "ruleset::builder::Builder::build", [bld])
            rcell = Cell(rs, ro=True, name="built-ruleset")
            r = ex.call(None, "ruleset::RuleSet::get_symbol", [Ref(rcell), Str(q)])
            if isinstance(r, Agg) and r.ty == "Result" and r.variant == "Ok" and isinstance(r.fields[0], Ref):
                return std.ok(ex.read_ref(r.fields[0]))
            return r
        cases = [Case("latest", q == b, [], ok_val(vb)),
                 Case("earlier", z3.And(q != b, q == a), [], ok_val(va)),
                 Case("older-present", z3.And(q != b, q != a, sym_has(q)), [], ok_val(sym_at(q))),
                 Case("absent", z3.And(q != b, q != a, z3.Not(sym_has(q))), [], err_var("InvalidSymbol", q))]
        d = check_paths(run, prog, world, oid, body, cases, "builder-step", meta={"shape": shape})
        out.append((d, {"op": "symbols", "shape": shape}))
    return out


def finish_family(run, helper, res, build, mandatory=True):
    """Native replay + bookkeeping for a list of (obligation, info) produced by one of the families above."""
    from . import e3replay
    for d, info in res:
        if d["verdict"] == "fail":
            e3replay.confirm(run, helper, d["id"], d, lambda cex, info=info: build(info, cex))
        else:
            for c in d.get("cex", []):
                c.pop("_model", None)
                c.pop("_case", None)
        if d["verdict"] == "inconclusive":
            run.inconc(d["id"], d.get("reason", "no verdict"), mandatory=mandatory)


def note_mir(run, prog):
    run.functions_encoded.update(sorted(prog.executed))
    m = run.extra.setdefault("mir", {})
    m["functions_executed_from_mir"] = sorted(prog.executed)
    m["std_contract_models"] = sorted(prog.stats.get("std_models", []))
    m["solver_queries"] = prog.stats["queries"]
    m["paths"] = prog.stats["paths"]


def keywords_of(run):
    import re as _re
    src = run.read("src/expr/keywords.rs")
    m = _re.search(r"KEYWORDS[^=]*=\s*[&\[]+(.*?)\];", src, _re.S)
    return set(_re.findall(r'"([^"]+)"', m.group(1))) if m else set()


def run_parts(run, parts, only=None, pendings=1, kinds=None, mandatory=True, pendings_heavy=None):
    """Shared driver: dump the MIR of the snapshot, run the requested obligation families, replay counterexamples natively."""
    from .mir.harness import dump_mir
    from . import e3replay
    from .synx import Helper
    prog = dump_mir(run)
    helper = Helper(run)
    ph = pendings if pendings_heavy is None else pendings_heavy          # families whose path count grows fastest with the schedule bound
    if "dispatcher" in parts:
        _, fns = decide_dispatcher(run, prog, helper, kinds=kinds, only=only, mandatory=mandatory, pendings=pendings)
        crosscheck_operator_functions(run, fns)
    if "ruleset" in parts:
        ks = (0, 1, 2, 3) if run.tier == "quick" else (0, 1, 2, 3, 4)
        res = ruleset_obligations(run, prog, ks, pendings=ph, only=only)
        finish_family(run, helper, res, lambda info, cex: ruleset_scenario(info["k"], cex), mandatory)
    if "rulebuilder" in parts:
        res = rulebuilder_obligations(run, prog, run.tier, only=only)
        finish_rulebuilder(run, helper, res, mandatory)
        res = rule_parse_obligations(run, prog, run.tier, only=only)
        finish_rulebuilder(run, helper, res, mandatory, text_of=rule_parse_text)
    if "serializer" in parts:
        res = serializer_obligations(run, prog, run.tier, only=only)
        finish_serializer(run, helper, res, mandatory)
    if "conversions" in parts:
        res = conversion_obligations(run, prog, run.tier, only=only)
        finish_convert(run, helper, res, mandatory)
    if "paths" in parts:
        res = path_obligations(run, prog, only=only)
        finish_family(run, helper, res, path_scenario, mandatory)
    if "calling_rules" in parts and (not only or only in "evaluate_value_2_calling_rules"):
        d = rules_with_calls_obligation(run, prog, 2, pendings=ph)
        finish_family(run, helper, [(d, {"k": 2})], lambda info, cex: rules_with_calls_scenario(info["k"], cex), mandatory)
    if "two_calls" in parts and (not only or only in "cache_two_calls"):
        d = two_calls_obligation(run, prog, pendings=ph)
        finish_family(run, helper, [(d, {})], lambda info, cex: e3replay.two_calls_build(cex), mandatory)
    if "builder" in parts:
        kw = keywords_of(run)
        res = builder_obligations(run, prog, run.tier, only=only) + function_batch_obligations(run, prog, run.tier, only=only)
        finish_family(run, helper, res, lambda info, cex: e3replay.builder_build(info, cex, kw), mandatory)
    note_mir(run, prog)
    run.assumptions += E3_ASSUMPTIONS
    return prog


# ================================================================================================ C09 / C11: two rules calling deterministic user functions
fnres_ok = z3.Function("fnres_ok", z3.StringSort(), VAL, z3.BoolSort())
fnres_val = z3.Function("fnres_val", z3.StringSort(), VAL, VAL)
fnres_err = z3.Function("fnres_err", z3.StringSort(), VAL, ANYHOW)


class DetWorld(RulesWorld):
    """Rules whose expressions are real call nodes `name_i(leaf_i)`; user functions are deterministic: the result of f on p is an
    uninterpreted function of (f, p), so `the result of the rule on its own` is expressible."""

    def begin(self, ex):
        super().begin(ex)
        en = self.prog.layouts.canon(["expr", "Expr"])
        self.fn_names = [z3.String(f"rule{i}.fn") for i in range(self.k)]
        for i in range(self.k):
            self.rules_vec.items[i].fields[2] = Agg(en, "Function", {0: Str(self.fn_names[i]), 1: boxed_leaf(i)})
        if ex is not None:
            for nm in self.fn_names:
                ex.assume(z3.Implies(fn_registered(nm), z3.And(z3.InRe(nm, IDENT), nm != z3.StringVal("probe"))))
            vs = [L.leaf_val(i) for i in range(self.k)]
            for i in range(self.k):
                for j in range(i + 1, self.k):
                    ex.assume((dbg_of(vs[i]) == dbg_of(vs[j])) == (vs[i] == vs[j]))

    def poll_userfn(self, ex, fut):
        if fut.polls == 0:
            name, param = fut.data
            fut.data = (name, param, self.n_call)
            self.n_call += 1
            ex.log.append(("call", name, param))
        name, param, n = fut.data

        def ready():
            okb = fnres_ok(name, param)
            if ex.choose([("ok", okb), ("err", z3.Not(okb))], "call-result") == "ok":
                return std.ok(SymVal(fnres_val(name, param)))
            return std.err(Opq("anyhow", fnres_err(name, param)))
        return self._pending_or(ex, fut, f"call{n}", ready)


class StandaloneExp(Exp):
    """Every outcome equals what its rule gives on its own (deterministic functions)."""

    def __init__(self, k):
        super().__init__("standalone", k)

    def __call__(self, ex, r):
        k = self.terms[0]
        if not (isinstance(r, Agg) and r.ty == "Result" and r.variant == "Ok"):
            return False
        v = r.fields[0]
        if not (isinstance(v, VecV) and v.items is not None and len(v.items) == k):
            return False
        conds = []
        for i, o in enumerate(v.items):
            val, rule = o.fields.get(0), o.fields.get(1)
            if not (isinstance(rule, Ref) and rule.cell is ex.h.ruleset_cell and rule.path == (("f", None, 0), ("i", i))):
                return False
            nm, p = ex.h.fn_names[i], L.leaf_val(i)
            alone = z3.If(z3.Not(L.leaf_ok(i)), _b(res_is_err_opaque(ex, val, L.leaf_err(i))),
                          z3.If(z3.Not(fn_registered(nm)), _b(res_is_err_variant(ex, val, "UnknownUserFunction", nm)),
                                z3.If(fnres_ok(nm, p), _b(res_is_ok_val(ex, val, fnres_val(nm, p))),
                                      _b(err_userfn(nm, fnres_err(nm, p))(ex, val)))))
            conds.append(alone)
        return z3.And(conds) if conds else True


def _b(x):
    return z3.BoolVal(x) if isinstance(x, bool) else x


def rules_with_calls_obligation(run, prog, k=2, pendings=1, oid=None):
    oid = oid or f"evaluate_value_{k}_calling_rules"
    world = DetWorld(prog, k)
    world.max_pending = pendings
    lemmas = {}
    install_format_hook(world, lemmas)

    def body(ex):
        co = ex.call(None, "ruleset::RuleSet::evaluate_value", [Ref(world.ruleset_cell), Ref(world.facts_cell)])
        return drive(ex, "{async fn body of ruleset::RuleSet::evaluate_value()}", co)
    cases = [Case("each-rule-as-on-its-own", z3.BoolVal(True), None, StandaloneExp(k))]
    d = check_paths(run, prog, world, oid, body, cases, "ruleset-loop", meta={"rules": k, "pendings_per_await": pendings, "functions": "deterministic"},
                    solver_timeout_ms=180000, max_paths=40000)
    d["format_template_injective_lemma_cvc5"] = lemmas
    return d


def rules_with_calls_scenario(k, cex):
    from .e3replay import Concretizer, leaf_plans, probe
    M = cex["_model"]
    C = Concretizer(M)
    names = [C.string(z3.String(f"rule{i}.fn")) for i in range(k)]
    plans = leaf_plans(C, range(k))
    builder = [{"op": "probe"}]
    table = {}
    for i in range(k):
        if C.boolean(L.leaf_ok(i)) and C.boolean(fn_registered(z3.StringVal(names[i]))):
            p = L.leaf_val(i)
            nm = z3.StringVal(names[i])
            res = {"ok": C.value(fnres_val(nm, p))} if C.boolean(fnres_ok(nm, p)) else {"err": f"fail-{names[i]}-{i}"}
            table.setdefault(names[i], []).append([C.value(p), res])
    for nm in sorted(set(names)):
        if C.boolean(fn_registered(z3.StringVal(nm))):
            builder.append({"op": "function", "name": nm, "cacheable": C.boolean(fn_cacheable(z3.StringVal(nm))), "results": [], "by_param": table.get(nm, [])})
    exp_vals = []
    for i in range(k):
        if not C.boolean(L.leaf_ok(i)):
            exp_vals.append({"err": {"variant": "UserFunctionError", "a": "probe", "b": f"leaf{i}"}})
        elif not C.boolean(fn_registered(z3.StringVal(names[i]))):
            exp_vals.append({"err": {"variant": "UnknownUserFunction", "a": names[i]}})
        else:
            ent = [r for pv, r in table[names[i]] if json_key(pv) == json_key(C.value(L.leaf_val(i)))][0]
            exp_vals.append(ent if "ok" in ent else {"err": {"variant": "UserFunctionError", "a": names[i], "b": ent["err"]}})
    rules = [{"op": "rule", "name": f"r{i}", "expr": {"k": "Function", "n": names[i], "c": [probe(i)]}} for i in range(k)]
    sc = {"facts": {"t": "None"}, "probes": plans, "builder": builder + rules}
    return sc, 0, ("outcomes", exp_vals, [f"r{i}" for i in range(k)]), None


# ================================================================================================ C10: access paths of two and three steps, executed in full
def path_obligations(run, prog, only=None):
    """`name.step` and `name.step.step` with every level executed from the MIR (no oracle): the composition of the single steps."""
    out = []
    en = prog.layouts.canon(["expr", "Expr"])
    name = z3.String("ref.name")
    FACTS = z3.StringVal("facts")

    def ref_cases(world):
        f = world.facts
        m = VAL.m(f)
        return [("whole", name == FACTS, f, None),
                ("field", z3.And(name != FACTS, VAL.is_Map(f), map_has(m, name)), map_at(m, name), None),
                ("missing", z3.And(name != FACTS, VAL.is_Map(f), z3.Not(map_has(m, name))), None, err_var("UnknownRef", name)),
                ("not-a-map", z3.And(name != FACTS, z3.Not(VAL.is_Map(f))), None, err_var("InvalidType"))]

    def step_cases(base, kind, idx):
        """[(label, guard, value term | None, error Exp | None)] for one index step on the value `base`"""
        if kind == "Map":
            m = VAL.m(base)
            return [("none", VAL.is_None_(base), VAL.None_, None),
                    ("present", z3.And(VAL.is_Map(base), map_has(m, idx)), map_at(m, idx), None),
                    ("absent", z3.And(VAL.is_Map(base), z3.Not(map_has(m, idx))), VAL.None_, None),
                    ("wrong-kind", z3.And(z3.Not(VAL.is_Map(base)), z3.Not(VAL.is_None_(base))), None, err_var("InvalidType"))]
        v = VAL.v(base)
        return [("none", VAL.is_None_(base), VAL.None_, None),
                ("present", z3.And(VAL.is_Vec(base), idx < vec_len(v)), vec_at(v, idx), None),
                ("absent", z3.And(VAL.is_Vec(base), idx >= vec_len(v)), VAL.None_, None),
                ("wrong-kind", z3.And(z3.Not(VAL.is_Vec(base)), z3.Not(VAL.is_None_(base))), None, err_var("InvalidType"))]

    key1, key2, pos1 = z3.String("step1.key"), z3.String("step2.key"), z3.Int("step1.pos")
    shapes = {"path_name_field": [("Map", key1)], "path_name_position": [("Vec", pos1)], "path_name_field_field": [("Map", key1), ("Map", key2)],
              "path_name_position_field": [("Vec", pos1), ("Map", key2)]}
    for oid, steps in shapes.items():
        if only and only not in oid:
            continue
        world = World(prog, record_ops=False)

        def body(ex, world=world, steps=steps):
            ex.assume(z3.And(pos1 >= 0, pos1 <= (1 << 64) - 1))
            e = Agg(en, "Reference", {0: Str(name)})
            for kind, idx in steps:
                ix = Agg("Index", "Map", {0: Str(idx)}) if kind == "Map" else Agg("Index", "Vec", {0: IntV(idx, "usize")})
                e = Agg(en, "Index", {0: std.mkbox(e, "path-base"), 1: ix})
            return run_root(ex, world, e)
        world.begin(None)
        partial = [(lab, g, val, er) for lab, g, val, er in ref_cases(world)]
        for kind, idx in steps:
            nxt = []
            for lab, g, val, er in partial:
                if er is not None:
                    nxt.append((lab, g, None, er))
                    continue
                for l2, g2, v2, e2 in step_cases(val, kind, idx):
                    nxt.append((lab + "/" + l2, z3.And(g, g2), v2, e2))
            partial = nxt
        cases = [Case(lab, g, [], ok_val(val) if er is None else er) for lab, g, val, er in partial]
        d = check_paths(run, prog, world, oid, body, cases, "access-path", meta={"steps": len(steps)}, mandatory_cases=[])
        out.append((d, {"path": oid, "steps": [(k, str(i)) for k, i in steps]}))
    return out


def path_scenario(info, cex):
    from .e3replay import Concretizer
    M = cex["_model"]
    key_terms = [z3.String(n) for n in ("ref.name", "step1.key", "step2.key")]
    C = Concretizer(M, key_terms)
    e = {"k": "Reference", "n": C.string(z3.String("ref.name"))}
    for kind, idx in info["steps"]:
        if kind == "Map":
            e = {"k": "Index", "c": [e], "i": {"f": C.string(z3.String(idx))}}
        else:
            e = {"k": "Index", "c": [e], "i": {"n": C.integer(z3.Int(idx))}}
    pre = []
    rn = z3.String("ref.name")
    if C.boolean(sym_has(rn)):
        pre.append({"op": "symbol", "name": C.string(rn), "value": C.value(sym_at(rn))})
    sc = {"facts": C.value(z3.Const("facts", VAL)), "builder": pre + [{"op": "rule", "name": "main", "expr": e}]}
    from .e3replay import expected_result
    return sc, 0, expected_result(C, cex["_case"].result, None), None


# ================================================================================================ C17: element-wise list / map conversions (generic impls)
ELEM = z3.DeclareSort("ConvertedElement")
conv_ok = z3.Function("conv_ok", VAL, z3.BoolSort())
conv_val = z3.Function("conv_val", VAL, ELEM)
conv_err = z3.Function("conv_err", VAL, ERR)
elem_into = z3.Function("elem_into_value", ELEM, VAL)


class ConvWorld(Env):
    """The element type V of the generic impls is an oracle: V::try_from(value) is an arbitrary deterministic partial function of the
    value (conv_ok / conv_val / conv_err), V::into() an arbitrary total function."""

    def override(self, ex, callee, args):
        if callee.startswith("<OracleV as std::convert::TryFrom<value::Value>>::try_from") or callee.startswith("<value::Value as std::convert::TryInto<OracleV>>::try_into"):
            t = ex.to_val(args[0])
            ex.log.append(("convert", t))
            if ex.choose([("ok", conv_ok(t)), ("err", z3.Not(conv_ok(t)))], "element-conversion") == "ok":
                return std.ok(Opq("elem", conv_val(t)))
            return std.err(Opq("Error", conv_err(t)))
        if callee.startswith("<value::Value as std::convert::From<OracleV>>::from") or callee.startswith("<OracleV as std::convert::Into<value::Value>>::into"):
            e = args[0]
            if isinstance(e, Opq) and e.sort == "elem":
                return SymVal(elem_into(e.t))
            raise Unsupported(f"into() of {e}")
        if callee.startswith("<std::string::String as std::convert::Into<std::string::String>>::into"):
            return args[0]
        return super().override(ex, callee, args)


def _elems_ok(res):
    if isinstance(res, Agg) and res.ty == "Result" and res.variant == "Ok":
        return res.fields[0]
    return None


def conversion_obligations(run, prog, tier, only=None):
    out = []
    ns = (0, 1, 2, 3) if tier == "thorough" else (0, 1, 2)
    world = ConvWorld()
    targets = [("vec", "std::vec::Vec<OracleV>", "Vec"), ("btreemap", "std::collections::BTreeMap<std::string::String, OracleV>", "Map"),
               ("hashmap", "std::collections::HashMap<std::string::String, OracleV>", "Map")]
    for tname, tty, tag in targets:
        callee = f"<{tty} as std::convert::TryFrom<value::Value>>::try_from"
        # ---- wrong kind
        oid = f"extract_{tname}_wrong_kind"
        if not only or only in oid:
            v = z3.Const("input", VAL)

            def body(ex, callee=callee, v=v, tag=tag):
                ex.assume(z3.Not(is_tag(v, tag)))
                return ex.call(None, callee, [SymVal(v)])

            def carries(ex, r, v=v):
                if isinstance(r, Agg) and r.ty == "Result" and r.variant == "Err":
                    e = r.fields[0]
                    if isinstance(e, Agg) and e.variant == "UnexpectedValueType":
                        return ex.to_val(e.fields[0]) == v
                return False
            d = check_paths(run, prog, world, oid, body, [Case("type-error-carrying-the-value", z3.BoolVal(True), None, carries)], "conversion",
                            meta={"target": tty})
            out.append((d, {"target": tname, "kind": "wrong", "tag": tag}))
        # ---- n elements / entries
        for n in ns:
            oid = f"extract_{tname}_{n}_elements"
            if only and only not in oid:
                continue
            es = [z3.Const(f"elem{i}", VAL) for i in range(n)]
            ks = [z3.String(f"key{i}") for i in range(n)]

            def body(ex, callee=callee, es=es, ks=ks, tag=tag, n=n):
                if tag == "Vec":
                    val = Agg("Value", "Vec", {0: VecV([SymVal(e) for e in es])})
                else:
                    sorted_keys(ex, ks)
                    val = Agg("Value", "Map", {0: MapV([("kv", Str(ks[i]), SymVal(es[i])) for i in range(n)])})
                return ex.call(None, callee, [val])
            allok = z3.And([conv_ok(e) for e in es]) if es else z3.BoolVal(True)

            def good_ok(ex, r, es=es, ks=ks, tag=tag, n=n):
                c = _elems_ok(r)
                if tag == "Vec":
                    if not (isinstance(c, VecV) and c.items is not None and len(c.items) == n):
                        return False
                    conds = [it.t == conv_val(e) if isinstance(it, Opq) and it.sort == "elem" else False for it, e in zip(c.items, es)]
                else:
                    if not (isinstance(c, MapV) and all(l[0] == "kv" for l in c.layers) and len(c.layers) == n):
                        return False
                    conds = [z3.And(l[1].t == k, l[2].t == conv_val(e)) if isinstance(l[2], Opq) and l[2].sort == "elem" else False
                             for l, k, e in zip(c.layers, ks, es)]
                if any(x is False for x in conds):
                    return False
                return z3.And(conds) if conds else True

            def good_err(ex, r, es=es):
                if isinstance(r, Agg) and r.ty == "Result" and r.variant == "Err":
                    e = r.fields[0]
                    if isinstance(e, Opq) and e.sort == "Error":
                        return z3.Or([z3.And(z3.Not(conv_ok(x)), e.t == conv_err(x)) for x in es])
                return False
            cases = [Case("every-element-converts", allok, None, good_ok)]
            if n:
                cases.append(Case("some-element-does-not-convert", z3.Not(allok), None, good_err))
            d = check_paths(run, prog, world, oid, body, cases, "conversion", meta={"target": tty, "elements": n})
            out.append((d, {"target": tname, "kind": "elements", "n": n, "tag": tag}))
    # ---- into Value: order and count preserved
    for n in ns:
        oid = f"vec_into_value_{n}_elements"
        if only and only not in oid:
            continue
        xs = [z3.Const(f"x{i}", ELEM) for i in range(n)]

        def body(ex, xs=xs):
            return std.ok(ex.call(None, "<value::Value as std::convert::From<std::vec::Vec<OracleV>>>::from", [VecV([Opq("elem", x) for x in xs])]))
        d = check_paths(run, prog, world, oid, body, [Case("same-order", z3.BoolVal(True), None, ok_vec([elem_into(x) for x in xs]))], "conversion",
                        meta={"elements": n})
        out.append((d, {"target": "into_vec", "kind": "into", "n": n}))
    return out


def conversion_scenario(info, cex):
    """-> (request for native/helper `convert`, expected answer)"""
    from .e3replay import Concretizer, Unrealisable
    C = Concretizer(cex["_model"])
    if info["kind"] == "wrong":
        v = z3.Const("input", VAL)
        val = {"t": "Int", "v": "7"} if C.boolean(conv_ok(v)) and info["tag"] != "Int" else C.value(v)
        return {"target": info["target"], "value": val}, {"err": {"variant": "UnexpectedValueType", "value": val}}
    if info["kind"] == "elements":
        n = info["n"]
        oks = [C.boolean(conv_ok(z3.Const(f"elem{i}", VAL))) for i in range(n)]
        elems = [{"t": "Int", "v": str(i + 1)} if oks[i] else {"t": "String", "v": f"bad{i}"} for i in range(n)]
        if info["tag"] == "Vec":
            val = {"t": "Vec", "v": elems}
        else:
            keys = [C.string(z3.String(f"key{i}")) for i in range(n)]
            val = {"t": "Map", "v": sorted([[k, e] for k, e in zip(keys, elems)])}
        if all(oks):
            exp = {"ok": [i + 1 for i in range(n)] if info["tag"] == "Vec" else sorted([[k, i + 1] for i, k in enumerate(keys)])}
        else:
            exp = {"err_any_of": [{"variant": "UnexpectedValueType", "value": elems[i]} for i in range(n) if not oks[i]]}
        return {"target": info["target"], "value": val}, exp
    raise Unrealisable("the into-Value direction has no native scenario")


def finish_convert(run, helper, res, mandatory=True):
    """Native replay of conversion counterexamples through native/helper `convert` (public TryFrom impls, V = u8)."""
    import json as _json
    from .e3replay import Unrealisable
    for d, info in res:
        if d["verdict"] == "fail":
            confirmed, notes, seen = 0, [], set()
            for cex in d.get("cex", []):
                if cex["case"] in seen:
                    continue
                try:
                    req, exp = conversion_scenario(info, cex)
                except Unrealisable as e:
                    notes.append(f"{cex['case']}: {e}")
                    continue
                seen.add(cex["case"])
                line = helper.call("convert", [req])[0]
                obs = _json.loads(line[3:]) if line.startswith("OK ") else {"panic": line}
                if "err_any_of" in exp:
                    okk = any(_json.dumps(obs.get("err"), sort_keys=True) == _json.dumps(x, sort_keys=True) for x in exp["err_any_of"])
                else:
                    okk = _json.dumps(obs, sort_keys=True) == _json.dumps(exp, sort_keys=True)
                if not okk:
                    confirmed += 1
                    run.finding(d["id"], cex["case"], f"{cex['why']}; natively: {_json.dumps(req)} gives {_json.dumps(obs)} but the specification gives {_json.dumps(exp)}",
                                {"engine": "e3-convert", "request": req, "expected": exp, "observed": obs})
                else:
                    notes.append(f"{cex['case']}: the solver's scenario behaves as specified natively")
            d["replay_notes"] = notes
            if not confirmed:
                d["verdict"] = "inconclusive"
                d["reason"] = "counterexample(s) did not reproduce natively: " + "; ".join(notes)[:300]
        for c in d.get("cex", []):
            c.pop("_model", None)
            c.pop("_case", None)
        if d["verdict"] == "inconclusive":
            run.inconc(d["id"], d.get("reason", "no verdict"), mandatory=mandatory)


# ================================================================================================ C14: RuleBuilder (metadata folding, name / description precedence)
NAME_K, DESC_K = z3.StringVal("name"), z3.StringVal("description")


def _struct_matches(ex, v, st):
    """Does the structured Value v equal the expected structure st? -> z3 Bool / bool"""
    kind = st[0]
    if kind == "lit":
        try:
            return ex.to_val(v) == st[1]
        except Unsupported:
            return False
    if kind == "str":
        if isinstance(v, Agg) and v.ty == "Value" and v.variant == "String" and isinstance(v.fields[0], Str):
            return v.fields[0].t == st[1]
        if isinstance(v, SymVal):
            return v.t == VAL.String(st[1])
        return False
    if kind == "vec":
        if not (isinstance(v, Agg) and v.ty == "Value" and v.variant == "Vec" and isinstance(v.fields[0], VecV) and v.fields[0].items is not None):
            return False
        items = v.fields[0].items
        if len(items) != len(st[1]):
            return False
        cs = [_struct_matches(ex, x, y) for x, y in zip(items, st[1])]
        if any(c is False for c in cs):
            return False
        cs = [c for c in cs if c is not True]
        return z3.And(cs) if cs else True
    if kind == "map":
        if not (isinstance(v, Agg) and v.ty == "Value" and v.variant == "Map" and isinstance(v.fields[0], MapV)):
            return False
        layers = v.fields[0].layers
        if len(layers) != len(st[1]) or any(l[0] != "kv" for l in layers):
            return False
        cs = []
        for l, (k, y) in zip(layers, st[1]):
            c = _struct_matches(ex, l[2], y)
            if c is False:
                return False
            cs.append(l[1].t == k)
            if c is not True:
                cs.append(c)
        return z3.And(cs) if cs else True
    return False


def _meta_matches(ex, mapv, expected):
    """expected: [(key term, struct)] with pairwise distinct keys under the case guard."""
    if not isinstance(mapv, MapV) or any(l[0] != "kv" for l in mapv.layers):
        return False
    layers = mapv.layers
    conds = []
    for k, st in expected:
        alts = []
        for i in range(len(layers) - 1, -1, -1):
            m = _struct_matches(ex, layers[i][2], st)
            if m is False:
                continue
            newer = [layers[j][1].t != k for j in range(i + 1, len(layers))]
            alts.append(z3.And([layers[i][1].t == k] + newer + ([m] if m is not True else [])))
        if not alts:
            return False
        conds.append(z3.Or(alts))
    for l in layers:
        if not expected:
            return False
        conds.append(z3.Or([l[1].t == k for k, _ in expected]))
    return z3.And(conds) if conds else True


def rulebuilder_obligations(run, prog, tier, only=None):
    import itertools
    out = []
    en = prog.layouts.canon(["expr", "Expr"])
    world = World(prog, record_ops=False)

    def mk_shape(i, shape):
        """-> (Expr value, expected flattened struct or None when the expression is not a constant)"""
        a, b = z3.Const(f"m{i}.a", VAL), z3.Const(f"m{i}.b", VAL)
        V = lambda t: Agg(en, "Value", {0: SymVal(t)})        # noqa: E731
        R = lambda: Agg(en, "Reference", {0: Str(z3.String(f"m{i}.ref"))})    # noqa: E731
        if shape == "lit":
            return V(a), ("lit", a)
        if shape == "nonconst":
            return R(), None
        if shape == "list2":
            return Agg(en, "Vec", {0: VecV([V(a), V(b)])}), ("vec", [("lit", a), ("lit", b)])
        if shape == "listbad":
            return Agg(en, "Vec", {0: VecV([V(a), R()])}), None
        if shape == "map1":
            kk = z3.String(f"m{i}.inner")
            return Agg(en, "Map", {0: MapV([("kv", Str(kk), V(a))])}), ("map", [(kk, ("lit", a))])
        if shape == "nested":
            return Agg(en, "Vec", {0: VecV([Agg(en, "Vec", {0: VecV([V(a)])}), V(b)])}), ("vec", [("vec", [("lit", a)]), ("lit", b)])
        raise ValueError(shape)

    combos = [("lit",), ("nonconst",), ("list2",), ("listbad",), ("map1",), ("nested",), ()]
    combos += [c for c in itertools.product(("lit", "nonconst", "list2"), repeat=2)]
    if tier == "thorough":
        combos += [("lit", "lit", "lit"), ("map1", "lit", "list2")]
    cname, cdesc = z3.String("comment.name"), z3.String("comment.description")
    for shapes in combos:
        oid = "rulebuilder_" + ("_".join(shapes) if shapes else "no_metadata")
        if only and only not in oid:
            continue
        m = len(shapes)
        keys = [z3.String(f"m{i}.key") for i in range(m)]

        def body(ex, shapes=shapes, keys=keys, m=m):
            # inputs as the grammar produces them: keys are identifier tokens, literal values have literal syntax (bound: Int, Bool, none,
            # strings over [a-z ]), comment lines are trimmed non-empty texts
            simple = z3.Star(z3.Union(z3.Range("a", "z"), z3.Re(" ")))
            trimmed = z3.Concat(z3.Range("a", "z"), z3.Option(z3.Concat(simple, z3.Range("a", "z"))))
            keyre = z3.Union(z3.Re("name"), z3.Re("description"), z3.Concat(z3.Re("k"), z3.Star(z3.Range("a", "z"))))
            for i in range(m):
                ex.assume(z3.InRe(keys[i], keyre))
                ex.assume(z3.InRe(z3.String(f"m{i}.inner"), z3.Concat(z3.Re("k"), z3.Star(z3.Range("a", "z")))))
                for t in (z3.Const(f"m{i}.a", VAL), z3.Const(f"m{i}.b", VAL)):
                    ex.assume(z3.Or(VAL.is_Int(t), VAL.is_Bool(t), VAL.is_None_(t), z3.And(VAL.is_String(t), z3.InRe(VAL.s(t), simple))))
                    ex.assume(z3.Implies(VAL.is_Int(t), z3.And(VAL.i(t) >= -(1 << 127), VAL.i(t) < (1 << 127))))
            ex.assume(z3.InRe(cname, trimmed))
            ex.assume(z3.InRe(cdesc, trimmed))
            meta = VecV([Agg("tuple", None, {0: Str(keys[i]), 1: mk_shape(i, shapes[i])[0]}) for i in range(m)])
            r = ex.call(None, "parse::rule::RuleBuilder::parse", [meta, leaf("main")])
            if not (isinstance(r, Agg) and r.ty == "Result"):
                raise Unsupported(f"RuleBuilder::parse returned {r}")
            if r.variant == "Err":
                return Agg("tuple", None, {0: Str("parse-error"), 1: r.fields[0]})
            b = r.fields[0]
            if ex.choose([(True, z3.Bool("has.comment.name")), (False, z3.Not(z3.Bool("has.comment.name")))], "comment-name"):
                b = ex.call(None, "parse::rule::RuleBuilder::set_name", [b, Str(cname)])
                if ex.choose([(True, z3.Bool("has.comment.description")), (False, z3.Not(z3.Bool("has.comment.description")))], "comment-description"):
                    b = ex.call(None, "parse::rule::RuleBuilder::set_description", [b, Str(cdesc)])
            else:
                ex.assume(z3.Not(z3.Bool("has.comment.description")))
            return Agg("tuple", None, {0: Str("built"), 1: ex.call(None, "parse::rule::RuleBuilder::build", [b])})
        # ---- the reference fold, one specification case per assignment of the key atoms
        cases = []
        roles = list(itertools.product(("name", "description", "other"), repeat=m))
        for role in roles:
            others = [i for i in range(m) if role[i] == "other"]
            eq_opts = [False, True] if len(others) == 2 and m == 2 else [False]
            for eq in eq_opts:
                str_opts = list(itertools.product([False, True], repeat=sum(1 for i in range(m) if role[i] == "name" and shapes[i] == "lit")))
                for strs in str_opts:
                    for hn, hd in ((False, False), (True, False), (True, True)):
                        g = []
                        for i in range(m):
                            g.append(keys[i] == NAME_K if role[i] == "name" else z3.And(keys[i] != NAME_K, keys[i] == DESC_K if role[i] == "description" else keys[i] != DESC_K))
                        if len(others) >= 2:
                            if m == 2:
                                g.append(keys[0] == keys[1] if eq else keys[0] != keys[1])
                            else:
                                g.append(z3.Distinct(*[keys[i] for i in others]))
                        si = iter(strs)
                        name, md, err = None, [], None
                        for i in range(m):
                            flat = mk_shape(i, shapes[i])[1]
                            if role[i] == "name":
                                if flat is None:
                                    err = ("InvalidMetadata", keys[i])
                                elif shapes[i] == "lit":
                                    is_s = next(si)
                                    g.append(VAL.is_String(flat[1]) if is_s else z3.Not(VAL.is_String(flat[1])))
                                    if is_s:
                                        name = VAL.s(flat[1])
                                    else:
                                        err = ("InvalidNameValue", None)
                                else:
                                    err = ("InvalidNameValue", None)       # a list / map constant is not a string
                            else:
                                if flat is None:
                                    err = ("InvalidMetadata", keys[i])
                                else:
                                    md = [(k, s) for k, s in md if not (role[i] == "description" and k is DESC_K)]
                                    if role[i] == "other" and eq and any(k is keys[0] for k, _ in md):
                                        md = [(k, s) for k, s in md if k is not keys[0]]
                                        md.append((keys[0], flat))
                                    else:
                                        md.append((DESC_K if role[i] == "description" else keys[i], flat))
                            if err:
                                break
                        g += [z3.Bool("has.comment.name") if hn else z3.Not(z3.Bool("has.comment.name")),
                              z3.Bool("has.comment.description") if hd else z3.Not(z3.Bool("has.comment.description"))]
                        label = f"{'/'.join(role) or 'none'}{'/same-key' if eq else ''}{'/' + ''.join('S' if x else 'x' for x in strs) if strs else ''}/{'N' if hn else '-'}{'D' if hd else '-'}"
                        if err:
                            def chk(ex, r, err=err):
                                if not (isinstance(r, Agg) and r.fields[0].t.eq(z3.StringVal("parse-error"))):
                                    return False
                                e = r.fields[1]
                                if not (isinstance(e, Agg) and e.variant == err[0]):
                                    return False
                                return True if err[1] is None else (e.fields[0].t == err[1] if isinstance(e.fields.get(0), Str) else False)
                            cases.append(Case(label, z3.And(g), None, chk))
                            continue
                        fname = name if name is not None else (cname if hn else None)
                        fmd = list(md)
                        if hd and not any(k is DESC_K for k, _ in fmd):
                            fmd.append((DESC_K, ("str", cdesc)))

                        def chk(ex, r, fname=fname, fmd=fmd):
                            if not (isinstance(r, Agg) and r.fields[0].t.eq(z3.StringVal("built"))):
                                return False
                            b = r.fields[1]
                            if fname is None:
                                return isinstance(b, Agg) and b.ty == "Result" and b.variant == "Err" and isinstance(b.fields[0], Agg) and b.fields[0].variant == "MissingRuleName"
                            if not (isinstance(b, Agg) and b.ty == "Result" and b.variant == "Ok"):
                                return False
                            rule = b.fields[0]
                            if not (isinstance(rule, Agg) and rule.ty == "Rule" and isinstance(rule.fields.get(2), Obj) and rule.fields[2].key == "main"):
                                return False
                            mm = _meta_matches(ex, rule.fields[1], fmd) if fmd else (isinstance(rule.fields[1], MapV) and not rule.fields[1].layers)
                            if mm is False:
                                return False
                            c = [rule.fields[0].t == fname] + ([mm] if mm is not True else [])
                            return z3.And(c)
                        cases.append(Case(label, z3.And(g), None, chk))
        d = check_paths(run, prog, world, oid, body, cases, "rule-builder", meta={"metadata_items": m, "shapes": list(shapes)}, mandatory_cases=[])
        out.append((d, {"shapes": list(shapes)}))
    return out


def rulebuilder_scenario(info, cex):
    """-> rule text for the real Rule::parse and the expected observation, from the model"""
    from .e3replay import Concretizer, Unrealisable
    import re as _re
    C = Concretizer(cex["_model"])
    shapes = info["shapes"]

    def lit_text(vj):
        t = vj["t"]
        if t == "Int":
            return "i" + vj["v"]
        if t == "Bool":
            return "true" if vj["v"] else "false"
        if t == "None":
            return "none"
        if t == "String" and _re.match(r"^[A-Za-z0-9 _.-]*$", vj["v"]):
            return '"' + vj["v"] + '"'
        if t == "Float":
            return "f1.5"
        if t == "Decimal":
            return "d" + vj["v"]
        raise Unrealisable(f"no literal syntax for the model value {vj}")
    items = []
    for i, sh in enumerate(shapes):
        k = C.string(z3.String(f"m{i}.key"))
        if not _re.match(r"^[a-z_][a-z0-9_]*$", k):
            raise Unrealisable(f"metadata key {k!r} is not an identifier")
        a = lambda: lit_text(C.value(z3.Const(f"m{i}.a", VAL)))      # noqa: E731
        b = lambda: lit_text(C.value(z3.Const(f"m{i}.b", VAL)))      # noqa: E731
        txt = {"lit": lambda: a(), "nonconst": lambda: "some_field", "list2": lambda: f"[{a()}, {b()}]", "listbad": lambda: f"[{a()}, some_field]",
               "map1": lambda: "{" + (C.string(z3.String(f"m{i}.inner")) or "k") + ": " + a() + "}", "nested": lambda: f"[[{a()}], {b()}]"}[sh]()
        items.append(f"@{k}: {txt};")
    lines = []
    if C.boolean(z3.Bool("has.comment.name")):
        n = C.string(z3.String("comment.name"))
        if n != n.strip() or "\n" in n or not n:
            raise Unrealisable("comment name with surrounding white space")
        lines.append("// " + n)
        if C.boolean(z3.Bool("has.comment.description")):
            dsc = C.string(z3.String("comment.description"))
            if dsc != dsc.strip() or "\n" in dsc or not dsc:
                raise Unrealisable("comment description with surrounding white space")
            lines.append("// " + dsc)
    return "\n".join(lines + items + ["i1"])


def finish_rulebuilder(run, helper, res, mandatory=True, text_of=None):
    """Native replay: the model becomes rule TEXT for the real Rule::parse; a reference implementation of the statement (below) computes the
    expected name / metadata from the same model; VIOLATION only if the real parser's answer differs."""
    from .e3replay import Unrealisable
    for d, info in res:
        if d["verdict"] == "fail":
            confirmed, notes, seen = 0, [], set()
            for cex in d.get("cex", []):
                if cex["case"] in seen:
                    continue
                try:
                    text = (text_of or rulebuilder_scenario)(info, cex)
                except Unrealisable as e:
                    notes.append(f"{cex['case']}: {e}")
                    continue
                seen.add(cex["case"])
                got = helper.call("rule", [text])[0]
                want = reference_rule(text)
                if norm_rule(got) != norm_rule(want):
                    confirmed += 1
                    run.finding(d["id"], cex["case"], f"{cex['why']}; natively: Rule::parse({text!r}) gives {got[:300]} but the statement gives {want[:300]}",
                                {"engine": "e3-rule", "text": text, "expected": want, "observed": got})
                else:
                    notes.append(f"{cex['case']}: the solver's scenario behaves as specified natively")
            d["replay_notes"] = notes
            if not confirmed:
                d["verdict"] = "inconclusive"
                d["reason"] = "counterexample(s) did not reproduce natively: " + "; ".join(notes)[:300]
        for c in d.get("cex", []):
            c.pop("_model", None)
            c.pop("_case", None)
        if d["verdict"] == "inconclusive":
            run.inconc(d["id"], d.get("reason", "no verdict"), mandatory=mandatory)


def norm_rule(s):
    s = s.strip()
    return "ERR" if s.startswith("ERR") else s


def reference_rule(text):
    """The statement of C14 on the restricted texts the replay generates (`// name`, `// description`, `@key: constant;` items, `i1`):
    returns the helper's `rule` output format."""
    import json as _json
    import re as _re
    comments = [l.lstrip()[2:].strip() for l in text.split("\n") if l.lstrip().startswith("//")]
    items = _re.findall(r"^@([a-z_][a-z0-9_]*): (.*);$", text, _re.M)

    def const(t):
        t = t.strip()
        if t.startswith("[") and t.endswith("]"):
            parts = split_top_level(t[1:-1])
            vals = [const(p) for p in parts]
            return None if any(v is None for v in vals) else "(VecValue" + "".join(" " + v for v in vals) + ")"
        if t.startswith("{") and t.endswith("}"):
            kvs = []
            for p in split_top_level(t[1:-1]):
                k, v = p.split(":", 1)
                cv = const(v)
                if cv is None:
                    return None
                kvs.append((k.strip(), cv))
            return "(MapValue" + "".join(f" ({_json.dumps(k)} {v})" for k, v in sorted(kvs)) + ")"
        if _re.match(r"^i-?\d+$", t):
            return f"(Int {int(t[1:])})"
        if t in ("true", "false"):
            return f"(Bool {t})"
        if t == "none":
            return "(NoneLit)"
        if t.startswith('"'):
            return "(String " + _json.dumps(t[1:-1]) + ")"
        if t == "f1.5":
            return "(Float 1.5 bits=3ff8000000000000)"
        if _re.match(r"^d\d+$", t):
            return f"(Decimal {int(t[1:])} scale=0)"
        return None
    name, md = None, {}
    for k, t in items:
        c = const(t)
        if c is None:
            return "ERR"
        if k == "name":
            if not c.startswith("(String "):
                return "ERR"
            name = _json.loads(c[len("(String "):-1])
        else:
            md[k] = c
    if name is None and comments:
        name = comments[0]
    if name is None:
        return "ERR"
    if "description" not in md and len(comments) > 1:
        md["description"] = "(String " + _json.dumps("\n".join(comments[1:])) + ")"
    desc = "null"
    if md.get("description", "").startswith("(String "):
        desc = md["description"][len("(String "):-1]
    meta = "".join(f" ({_json.dumps(k)} {v})" for k, v in sorted(md.items()))
    return f"OK (Rule name={_json.dumps(name)} desc={desc} (Meta{meta}) (Int 1))"


def split_top_level(s):
    out, depth, cur = [], 0, []
    for ch in s:
        if ch in "[{":
            depth += 1
        elif ch in "]}":
            depth -= 1
        if ch == "," and depth == 0:
            out.append("".join(cur))
            cur = []
        else:
            cur.append(ch)
    if "".join(cur).strip():
        out.append("".join(cur))
    return out


# ================================================================================================ C14: Rule::parse - comment lines and the glue around the builder
str_trim_start = z3.Function("str_trim_start", z3.StringSort(), z3.StringSort())
str_trim = z3.Function("str_trim", z3.StringSort(), z3.StringSort())
meta_has = z3.Function("meta_has", z3.StringSort(), z3.BoolSort())
meta_at = z3.Function("meta_at", z3.StringSort(), VAL)
PARSE_ERR_TEXT = z3.String("parse.error.text")


class ParseWorld(World):
    """Rule::parse with the generated parser as an oracle: it either fails (opaque error) or returns a RuleBuilder with an arbitrary
    optional @name, an arbitrary metadata table and the parsed expression. The input text is a list of symbolic lines."""

    def __init__(self, prog, nlines):
        super().__init__(prog, record_ops=False)
        self.nlines = nlines

    def begin(self, ex):
        super().begin(ex)
        self.lines = [z3.String(f"line{i}") for i in range(self.nlines)]
        self.text = Obj("text", "input")

    def abs_map_has(self, ex, kind, mid, key):
        if kind == "meta":
            return meta_has(key.t)
        return super().abs_map_has(ex, kind, mid, key)

    def abs_map_at(self, ex, kind, mid, key):
        if kind == "meta":
            return SymVal(meta_at(key.t))
        return super().abs_map_at(ex, kind, mid, key)

    def override(self, ex, callee, args):
        from .mir.symex import IterV
        b = callee.split("::<")[0]
        if re.match(r"core::str::<impl str>::lines$", callee):
            t = std.deref_all(ex, args[0])
            if isinstance(t, Obj) and t.kind == "text":
                return IterV("list", [Str(l) for l in self.lines], 0)
            raise Unsupported("lines() of a string that is not the input text")
        m = re.match(r"core::str::<impl str>::(trim_start|trim|strip_prefix)", callee)
        if m:
            s = std.as_str(ex, args[0])
            if m.group(1) == "trim_start":
                return Str(str_trim_start(s.t))
            if m.group(1) == "trim":
                return Str(str_trim(s.t))
            p = std.as_str(ex, args[1])
            if ex.choose([(True, z3.PrefixOf(p.t, s.t)), (False, z3.Not(z3.PrefixOf(p.t, s.t)))], "strip-prefix"):
                return std.some(Str(z3.SubString(s.t, z3.Length(p.t), z3.Length(s.t) - z3.Length(p.t))))
            return std.NONE()
        if b.endswith("RuleParser::new"):
            return Obj("parser", 0)
        if b.endswith("RuleParser::parse"):
            t = std.deref_all(ex, args[-1])
            if not (isinstance(t, Obj) and t.kind == "text"):
                raise Unsupported("the parser is not applied to the input text")
            if ex.choose([("ok", z3.Bool("parser.ok")), ("err", z3.Not(z3.Bool("parser.ok")))], "parser-result") == "err":
                return std.err(Opq("ParseError", None))
            nm = std.some(Str(z3.String("meta.name"))) if ex.choose([(True, z3.Bool("meta.has.name")), (False, z3.Not(z3.Bool("meta.has.name")))], "meta-name") else std.NONE()
            return std.ok(Agg("RuleBuilder", None, {0: nm, 1: leaf("parsed"), 2: MapV([("abs", "meta", 0)])}))
        if callee.startswith("<parse::reval::__lalrpop_util::ParseError<") and "::to_string" in callee:
            return Str(PARSE_ERR_TEXT)
        return super().override(ex, callee, args)


def rule_parse_obligations(run, prog, tier, only=None):
    import itertools
    out = []
    Ls = (0, 1, 2, 3) if tier == "quick" else (0, 1, 2, 3, 4)
    TWO = z3.StringVal("//")
    for L_ in Ls:
        oid = f"rule_parse_{L_}_lines"
        if only and only not in oid:
            continue
        world = ParseWorld(prog, L_)
        lines = [z3.String(f"line{i}") for i in range(L_)]
        ts = [str_trim_start(l) for l in lines]
        iscom = [z3.PrefixOf(TWO, t) for t in ts]
        content = [str_trim(z3.SubString(t, 2, z3.Length(t) - 2)) for t in ts]

        def body(ex, world=world, content=content):
            simple = z3.Star(z3.Union(z3.Range("a", "z"), z3.Re(" ")))
            trimmed = z3.Option(z3.Concat(z3.Range("a", "z"), z3.Option(z3.Concat(simple, z3.Range("a", "z")))))
            for c in content:
                ex.assume(z3.InRe(c, trimmed))          # what trim returns has no surrounding white space (bound: [a-z ] texts)
            ex.assume(z3.InRe(z3.String("meta.name"), z3.Concat(z3.Range("a", "z"), z3.Star(z3.Range("a", "z")))))
            r = ex.call(None, "ruleset::rule::Rule::parse", [world.text])
            return r
        cases = []
        for pattern in itertools.product([False, True], repeat=L_):
            g = [iscom[i] if pattern[i] else z3.Not(iscom[i]) for i in range(L_)]
            coms = [content[i] for i in range(L_) if pattern[i]]
            lab = "".join("C" if p else "-" for p in pattern) or "none"
            cases.append(Case(f"{lab}/parser-fails", z3.And(g + [z3.Not(z3.Bool("parser.ok"))]), None,
                              lambda ex, r: isinstance(r, Agg) and r.ty == "Result" and r.variant == "Err" and isinstance(r.fields[0], Agg)
                              and r.fields[0].variant == "RuleParseError" and isinstance(r.fields[0].fields.get(0), Str) and (r.fields[0].fields[0].t == PARSE_ERR_TEXT)))
            for hasn, hasd in itertools.product([False, True], repeat=2):
                gg = g + [z3.Bool("parser.ok"), z3.Bool("meta.has.name") if hasn else z3.Not(z3.Bool("meta.has.name")),
                          meta_has(DESC_K) if hasd else z3.Not(meta_has(DESC_K))]
                name = z3.String("meta.name") if hasn else (coms[0] if coms else None)
                desc = None
                if len(coms) > 1 and not hasd:
                    parts = []
                    for j, c in enumerate(coms[1:]):
                        if j:
                            parts.append(z3.StringVal("\n"))
                        parts.append(c)
                    desc = z3.Concat(*parts) if len(parts) > 1 else parts[0]

                def chk(ex, r, name=name, desc=desc):
                    if name is None:
                        return isinstance(r, Agg) and r.ty == "Result" and r.variant == "Err" and isinstance(r.fields[0], Agg) and r.fields[0].variant == "MissingRuleName"
                    if not (isinstance(r, Agg) and r.ty == "Result" and r.variant == "Ok"):
                        return False
                    rule = r.fields[0]
                    if not (isinstance(rule, Agg) and rule.ty == "Rule" and isinstance(rule.fields.get(2), Obj) and rule.fields[2].key == "parsed"):
                        return False
                    md = rule.fields[1]
                    if not (isinstance(md, MapV) and md.layers and md.layers[0][0] == "abs"):
                        return False
                    kv = [l for l in md.layers if l[0] == "kv"]
                    if len(md.layers) != 1 + len(kv) or len(kv) != (1 if desc is not None else 0):
                        return False
                    cs = [rule.fields[0].t == name]
                    if desc is not None:
                        cs += [kv[0][1].t == DESC_K, ex.to_val(kv[0][2]) == VAL.String(desc)]
                    return z3.And(cs)
                cases.append(Case(f"{lab}/{'@name' if hasn else '-'}/{'@description' if hasd else '-'}", z3.And(gg), None, chk))
        d = check_paths(run, prog, world, oid, body, cases, "rule-parse", meta={"lines": L_}, mandatory_cases=[], max_paths=6000)
        out.append((d, {"lines": L_}))
    return out


def rule_parse_text(info, cex):
    """The model as rule text: comment lines carry the model's contents, other lines are blank; the oracle parser's answer is realised by
    the trailing @name / @description items and the expression."""
    from .e3replay import Concretizer
    C = Concretizer(cex["_model"])
    L_ = info["lines"]
    out = []
    for i in range(L_):
        t = str_trim_start(z3.String(f"line{i}"))
        if C.boolean(z3.PrefixOf(z3.StringVal("//"), t)):
            out.append("// " + C.string(str_trim(z3.SubString(t, 2, z3.Length(t) - 2))) + " ")
        else:
            out.append("")
    if not C.boolean(z3.Bool("parser.ok")):
        return "\n".join(out + ["i1 i1"])
    if C.boolean(z3.Bool("meta.has.name")):
        out.append(f'@name: "{C.string(z3.String("meta.name"))}";')
    if C.boolean(meta_has(DESC_K)):
        v = C.value(meta_at(DESC_K))
        out.append("@description: " + ('"' + v["v"] + '"' if v["t"] == "String" and re.match(r"^[a-z ]*$", v["v"]) else "i5") + ";")
    return "\n".join(out + ["i1"])


def crosscheck_operator_functions(run, fns):
    """The Kani cells of C01-C04 decide, per node kind K, the function that the SOURCE TEXT of the arm names (extract.eval_arms). E3 sees
    which function the MIR of that arm really applies. If the two disagree the cells are checking the wrong function: say so (cannot decide)."""
    from .common import EncodingError
    from .extract import eval_arms
    try:
        arms = eval_arms(run.read("src/expr/eval/mod.rs"))
    except (EncodingError, OSError):
        return
    bad = []
    for node, called in fns.items():
        named = (arms.get(node) or {}).get("fn")
        if named and called and named not in called and not any(c in (arms.get(node) or {}).get("text", "") for c in called):
            bad.append(f"{node}: source names `{named}`, the MIR applies {called}")
    run.extra.setdefault("mir", {})["operator_function_per_node"] = {k: v for k, v in sorted(fns.items())}
    if bad:
        run.inconc("operator-function-crosscheck", "; ".join(bad)[:400], mandatory=True)


# ================================================================================================ C13: container collectors of the serializer
class SerWorld(Env):
    """serde's protocol driven by the harness; element / key types are oracles: serializing element i gives an arbitrary Value or an
    arbitrary error, serializing key i (with the string-only key serializer) an arbitrary string or an error."""

    def override(self, ex, callee, args):
        m = re.match(r"<(.+) as serde::Serialize>::serialize::<(.+)>$", callee)
        if m:
            who, ser = m.group(1), m.group(2)
            v = std.deref_all(ex, args[0])
            if isinstance(v, Obj) and v.kind in ("elem", "key"):
                i = v.key
                if v.kind == "elem":
                    if ex.choose([("ok", z3.Bool(f"el{i}.ok")), ("err", z3.Not(z3.Bool(f"el{i}.ok")))], "element") == "ok":
                        return std.ok(SymVal(z3.Const(f"el{i}.val", VAL)))
                    return std.err(Opq("Error", z3.Const(f"el{i}.err", ERR)))
                if ex.choose([("ok", z3.Bool(f"key{i}.ok")), ("err", z3.Not(z3.Bool(f"key{i}.ok")))], "key") == "ok":
                    return std.ok(Str(z3.String(f"key{i}.text")))
                return std.err(Opq("Error", z3.Const(f"key{i}.err", ERR)))
            if isinstance(v, Str):
                ex.prog.stats.setdefault("std_models", set()).add("serde: <str as Serialize>::serialize = serializer.serialize_str(text)")
                return ex.call(None, f"<{ser} as serde::Serializer>::serialize_str", [args[1], v])
            raise Unsupported(f"Serialize of {v}")
        m = re.match(r"(?:<(.+) as )?serde::ser::SerializeMap>?::serialize_entry", callee)
        if m:
            ex.prog.stats.setdefault("std_models", set()).add("serde: SerializeMap::serialize_entry (default method) = serialize_key then serialize_value")
            ty = "value::ser::SerializeMapValue"
            r = ex.call(None, f"<{ty} as serde::ser::SerializeMap>::serialize_key::<K>", [args[0], args[1]])
            if r.variant == "Err":
                return r
            return ex.call(None, f"<{ty} as serde::ser::SerializeMap>::serialize_value::<V>", [args[0], args[2]])
        return super().override(ex, callee, args)


def serializer_obligations(run, prog, tier, only=None):
    out = []
    ns = (0, 1, 2, 3) if tier == "quick" else (0, 1, 2, 3, 4)
    world = SerWorld()
    VS = "value::ser::ValueSerializer"
    okb = lambda i: z3.Bool(f"el{i}.ok")                      # noqa: E731
    val = lambda i: z3.Const(f"el{i}.val", VAL)                # noqa: E731
    er = lambda i: z3.Const(f"el{i}.err", ERR)                 # noqa: E731
    kok = lambda i: z3.Bool(f"key{i}.ok")                      # noqa: E731
    ktx = lambda i: z3.String(f"key{i}.text")                  # noqa: E731
    ker = lambda i: z3.Const(f"key{i}.err", ERR)               # noqa: E731
    vname = z3.String("variant.name")

    def unwrap(r):
        if not (isinstance(r, Agg) and r.ty == "Result" and r.variant == "Ok"):
            raise Unsupported(f"collector constructor failed: {r}")
        return Cell(r.fields[0], name="collector")

    kinds = {
        "seq": ("serialize_seq", lambda: [std.some(IntV(0, "usize"))], "value::ser::SerializeVecValue", "serde::ser::SerializeSeq", "serialize_element", "list"),
        "tuple": ("serialize_tuple", lambda: [IntV(0, "usize")], "value::ser::SerializeVecValue", "serde::ser::SerializeTuple", "serialize_element", "list"),
        "tuple_struct": ("serialize_tuple_struct", lambda: [Str("T"), IntV(0, "usize")], "value::ser::SerializeVecValue", "serde::ser::SerializeTupleStruct", "serialize_field", "list"),
        "tuple_variant": ("serialize_tuple_variant", lambda: [Str("E"), IntV(0, "u32"), Str(vname), IntV(0, "usize")], "value::ser::SerializeTupleVariantValue",
                          "serde::ser::SerializeTupleVariant", "serialize_field", "tagged-list"),
        "map": ("serialize_map", lambda: [std.NONE()], "value::ser::SerializeMapValue", "serde::ser::SerializeMap", None, "map"),
        "struct": ("serialize_struct", lambda: [Str("S"), IntV(0, "usize")], "value::ser::SerializeMapValue", "serde::ser::SerializeStruct", "serialize_field", "fields"),
        "struct_variant": ("serialize_struct_variant", lambda: [Str("E"), IntV(0, "u32"), Str(vname), IntV(0, "usize")], "value::ser::SerializeStructVariantValue",
                           "serde::ser::SerializeStructVariant", "serialize_field", "tagged-fields"),
    }
    for kname, (ctor, ctor_args, cty, ctrait, meth, shape) in kinds.items():
        for n in ns:
            oid = f"serialize_{kname}_{n}"
            if only and only not in oid:
                continue

            def body(ex, ctor=ctor, ctor_args=ctor_args, cty=cty, ctrait=ctrait, meth=meth, shape=shape, n=n):
                if shape in ("map", "fields", "tagged-fields") and n > 1:
                    ex.assume(z3.Distinct(*[ktx(i) for i in range(n)]))
                c = unwrap(ex.call(None, f"<{VS} as serde::Serializer>::{ctor}", [Agg("ValueSerializer")] + ctor_args()))
                cref = Ref(c, (), True)
                for i in range(n):
                    el = Ref(Cell(Obj("elem", i), ro=True, name=f"elem{i}"))
                    if shape == "map":
                        r = ex.call(None, f"<{cty} as {ctrait}>::serialize_key::<OracleK>", [cref, Ref(Cell(Obj("key", i), ro=True, name=f"key{i}"))])
                        if r.variant == "Err":
                            return r
                        r = ex.call(None, f"<{cty} as {ctrait}>::serialize_value::<OracleT>", [cref, el])
                    elif shape in ("fields", "tagged-fields"):
                        r = ex.call(None, f"<{cty} as {ctrait}>::{meth}::<OracleT>", [cref, Str(ktx(i)), el])
                    else:
                        r = ex.call(None, f"<{cty} as {ctrait}>::{meth}::<OracleT>", [cref, el])
                    if not (isinstance(r, Agg) and r.ty == "Result"):
                        raise Unsupported(f"collector step returned {r}")
                    if r.variant == "Err":
                        return r
                return ex.call(None, f"<{cty} as {ctrait}>::end", [c.v])
            cases = []
            prev = []
            for i in range(n):
                if shape == "map":
                    cases.append(Case(f"key{i}-fails", z3.And(prev + [z3.Not(kok(i))]), None, err_opq(ker(i))))
                    prev = prev + [kok(i)]
                cases.append(Case(f"element{i}-fails", z3.And(prev + [z3.Not(okb(i))]), None, err_opq(er(i))))
                prev = prev + [okb(i)]
            vals = [val(i) for i in range(n)]
            pairs = [(ktx(i), val(i)) for i in range(n)]

            def tagged(inner):
                def f(ex, r):
                    if isinstance(r, Agg) and r.ty == "Result" and r.variant == "Ok":
                        v = r.fields[0]
                        if isinstance(v, Agg) and v.ty == "Value" and v.variant == "Map" and isinstance(v.fields[0], MapV) and len(v.fields[0].layers) == 1:
                            l = v.fields[0].layers[0]
                            c = inner(ex, std.ok(l[2]))
                            if c is False:
                                return False
                            return z3.And([l[1].t == vname] + ([c] if c is not True else []))
                    return False
                return f
            good = {"list": ok_vec(vals), "tagged-list": tagged(ok_vec(vals)), "map": ok_map(pairs), "fields": ok_map(pairs), "tagged-fields": tagged(ok_map(pairs))}[shape]
            cases.append(Case("all-serialize", z3.And(prev) if prev else z3.BoolVal(True), None, good))
            d = check_paths(run, prog, world, oid, body, cases, "serializer-collector", meta={"container": kname, "elements": n})
            out.append((d, {"kind": kname, "n": n, "shape": shape}))
    # ---- a map / struct that emits the same key twice: the later entry wins (as in serde_json's image)
    for kname in ("map", "struct"):
        oid = f"serialize_{kname}_repeated_key"
        if only and only not in oid:
            continue
        ctor, ctor_args, cty, ctrait, meth, shape = kinds[kname]

        def body(ex, ctor=ctor, ctor_args=ctor_args, cty=cty, ctrait=ctrait, meth=meth, shape=shape):
            c = unwrap(ex.call(None, f"<{VS} as serde::Serializer>::{ctor}", [Agg("ValueSerializer")] + ctor_args()))
            cref = Ref(c, (), True)
            for i in range(2):
                el = Ref(Cell(Obj("elem", i), ro=True, name=f"elem{i}"))
                if shape == "map":
                    r = ex.call(None, f"<{cty} as {ctrait}>::serialize_key::<OracleK>", [cref, Ref(Cell(Obj("key", 0), ro=True, name="key0"))])
                    if r.variant == "Err":
                        return r
                    r = ex.call(None, f"<{cty} as {ctrait}>::serialize_value::<OracleT>", [cref, el])
                else:
                    r = ex.call(None, f"<{cty} as {ctrait}>::{meth}::<OracleT>", [cref, Str(ktx(0)), el])
                if r.variant == "Err":
                    return r
            return ex.call(None, f"<{cty} as {ctrait}>::end", [c.v])

        def last_wins(ex, r):
            if isinstance(r, Agg) and r.ty == "Result" and r.variant == "Ok":
                v = r.fields[0]
                if isinstance(v, Agg) and v.ty == "Value" and v.variant == "Map" and isinstance(v.fields[0], MapV):
                    try:
                        mid = ex.map_id(v.fields[0])
                    except Unsupported:
                        return False
                    return z3.And(map_has(mid, ktx(0)), map_at(mid, ktx(0)) == val(1))
            return False
        g = z3.And(okb(0), okb(1)) if shape != "map" else z3.And(kok(0), okb(0), okb(1))
        cases = [Case("later-entry-wins", g, None, last_wins), Case("some-failure", z3.Not(g), None, lambda ex, r: isinstance(r, Agg) and r.ty == "Result" and r.variant == "Err")]
        d = check_paths(run, prog, world, oid, body, cases, "serializer-collector", meta={"container": kname, "elements": 2, "keys": "equal"})
        out.append((d, {"kind": kname, "n": 2, "shape": "repeated-" + shape}))
    # ---- provided methods the crate overrides (collect_seq / collect_map): must agree with the element-wise protocol
    for n in ns:
        oid = f"collect_seq_{n}"
        if only and only not in oid:
            continue
        callee = f"<{VS} as serde::Serializer>::collect_seq::<std::vec::Vec<OracleT>>"
        if prog.resolve(callee) is None:
            continue          # not overridden: serde's default is serialize_seq + serialize_element* + end, decided above

        def body(ex, callee=callee, n=n):
            return ex.call(None, callee, [Agg("ValueSerializer"), VecV([Obj("elem", i) for i in range(n)])])
        cases, prev = [], []
        for i in range(n):
            cases.append(Case(f"element{i}-fails", z3.And(prev + [z3.Not(okb(i))]), None, err_opq(er(i))))
            prev = prev + [okb(i)]
        cases.append(Case("all-serialize", z3.And(prev) if prev else z3.BoolVal(True), None, ok_vec([val(i) for i in range(n)])))
        d = check_paths(run, prog, world, oid, body, cases, "serializer-collector", meta={"container": "collect_seq", "elements": n})
        out.append((d, {"kind": "collect_seq", "n": n, "shape": "list"}))
    return out


def serializer_scenario(info, cex):
    from .e3replay import Concretizer
    C = Concretizer(cex["_model"])
    n = info["n"]
    els = [{"ok": i + 1} if C.boolean(z3.Bool(f"el{i}.ok")) else {"err": True} for i in range(n)]
    keys_ok = [C.boolean(z3.Bool(f"key{i}.ok")) for i in range(n)] if info["shape"] == "map" else [True] * n
    req = {"kind": info["kind"], "elems": els, "keys_ok": keys_ok, "repeat_key": info["shape"].startswith("repeated-")}
    if info["shape"].startswith("repeated-"):
        ok_all = all("ok" in e for e in els) and all(keys_ok[:1] if info["shape"].endswith("map") else [True])
        exp = {"ok": {"t": "Map", "v": [["a", {"t": "Int", "v": "2"}]]}} if ok_all else {"err": "key" if (info["shape"].endswith("map") and not keys_ok[0]) else "element"}
        return req, exp
    # expectation under the model
    exp = None
    for i in range(n):
        if info["shape"] == "map" and not keys_ok[i]:
            exp = {"err": "key"}
            break
        if "err" in els[i]:
            exp = {"err": "element"}
            break
    if exp is None:
        vals = [{"t": "Int", "v": str(i + 1)} for i in range(n)]
        names = ["a", "b", "c", "d"][:n]
        if info["shape"] == "list":
            exp = {"ok": {"t": "Vec", "v": vals}}
        elif info["shape"] == "tagged-list":
            exp = {"ok": {"t": "Map", "v": [["T", {"t": "Vec", "v": vals}]]}}
        elif info["shape"] in ("map", "fields"):
            exp = {"ok": {"t": "Map", "v": [[k, v] for k, v in zip(names, vals)]}}
        else:
            exp = {"ok": {"t": "Map", "v": [["S", {"t": "Map", "v": [[k, v] for k, v in zip(names, vals)]}]]}}
    return req, exp


def finish_serializer(run, helper, res, mandatory=True):
    import json as _json
    for d, info in res:
        if d["verdict"] == "fail":
            confirmed, notes, tried = 0, [], {}
            for cex in d.get("cex", []):
                if tried.get(cex["case"], 0) >= 4:
                    continue
                tried[cex["case"]] = tried.get(cex["case"], 0) + 1
                req, exp = serializer_scenario(info, cex)
                line = helper.call("serialize", [req])[0]
                obs = _json.loads(line[3:]) if line.startswith("OK ") else {"panic": line}
                if _json.dumps(obs, sort_keys=True) != _json.dumps(exp, sort_keys=True):
                    confirmed += 1
                    tried[cex["case"]] = 99
                    run.finding(d["id"], cex["case"], f"{cex['why']}; natively: {_json.dumps(req)} gives {_json.dumps(obs)} but the specification gives {_json.dumps(exp)}",
                                {"engine": "e3-serialize", "request": req, "expected": exp, "observed": obs})
                else:
                    notes.append(f"{cex['case']}: the solver's scenario behaves as specified natively")
            d["replay_notes"] = notes
            if not confirmed:
                d["verdict"] = "inconclusive"
                d["reason"] = "counterexample(s) did not reproduce natively: " + "; ".join(notes)[:300]
        for c in d.get("cex", []):
            c.pop("_model", None)
            c.pop("_case", None)
        if d["verdict"] == "inconclusive":
            run.inconc(d["id"], d.get("reason", "no verdict"), mandatory=mandatory)


def realistic_name(ex, n):
    """Bound on the symbolic function names that keeps the two (uninterpreted) name predicates consistent with the real ones, so that every
    model can be replayed: a name is fn[a-z]* (well-formed, not reserved), or `if` (reserved), or `1x` (ill-formed)."""
    good = z3.InRe(n, z3.Concat(z3.Re("fn"), z3.Star(z3.Range("a", "z"))))
    ex.assume(z3.Or(z3.And(good, is_ident(n), z3.Not(is_reserved(n))),
                    z3.And(n == z3.StringVal("if"), is_reserved(n)),
                    z3.And(n == z3.StringVal("1x"), z3.Not(is_ident(n)), z3.Not(is_reserved(n)))))
    ex.assume(z3.Implies(fn_registered(n), good))


def function_batch_obligations(run, prog, tier, only=None):
    """Builder::with_function and with_functions (batches of 2) from an arbitrary registry."""
    out = []
    for m in (1, 2):
        oid = f"with_functions_batch_{m}" if m > 1 else "with_function_single"
        if only and only not in oid:
            continue
        world = BuilderWorld(prog, 0)
        names = [z3.String(f"newfn{i}.name") for i in range(m)]

        def body(ex, world=world, names=names, m=m):
            for nm in names:
                realistic_name(ex, nm)
            if m == 1:
                r = ex.call(None, "ruleset::builder::Builder::with_function::<OracleFn>", [world.builder, Obj("userfn", names[0])])
            else:
                r = ex.call(None, "ruleset::builder::Builder::with_functions::<std::vec::Vec<std::boxed::Box<dyn function::UserFunction + std::marker::Send + std::marker::Sync>>>",
                            [world.builder, VecV([std.mkbox(Obj("userfn", names[i]), f"fn{i}") for i in range(m)])])
            world.result_builder = r.fields[0] if isinstance(r, Agg) and r.ty == "Result" and r.variant == "Ok" else None
            return r

        def registry_is(expected):
            def f(ex, r):
                b = world.result_builder
                if not (isinstance(r, Agg) and r.ty == "Result" and r.variant == "Ok" and isinstance(b, Agg) and b.ty == "Builder"):
                    return False
                reg = b.fields[1].fields[0]
                kv = [l for l in reg.layers if l[0] == "kv"]
                if len(kv) != len(expected) or len([l for l in reg.layers if l[0] == "abs"]) != 1:
                    return False
                conds = []
                for l, nm in zip(kv, expected):
                    fn = l[2]
                    inner = ex.read_ref(std.unbox(ex, fn)) if isinstance(fn, Agg) and fn.ty == "Box" else None
                    if not (isinstance(inner, Obj) and inner.kind == "userfn" and inner.key.eq(nm)):
                        return False
                    conds.append(l[1].t == nm)
                return z3.And(conds) if conds else True
            return f
        cases = []
        prev_ok = []
        for i in range(m):
            bad = z3.Or(is_reserved(names[i]), z3.Not(is_ident(names[i])))
            dup = z3.Or([fn_registered(names[i])] + [names[j] == names[i] for j in range(i)])
            cases.append(Case(f"item{i}-ill-formed", z3.And(prev_ok + [bad]), [], err_var("InvalidFunctionName", names[i])))
            cases.append(Case(f"item{i}-duplicate", z3.And(prev_ok + [z3.Not(bad), dup]), [], err_var("DuplicateFunctionName", names[i])))
            prev_ok = prev_ok + [z3.Not(bad), z3.Not(dup)]
        cases.append(Case("all-accepted", z3.And(prev_ok), [], registry_is(names)))
        d = check_paths(run, prog, world, oid, body, cases, "builder-step", meta={"batch": m, "registry": "arbitrary"})
        out.append((d, {"op": "functions", "m": m}))
    return out
