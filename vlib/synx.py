"""E2 driver: bounded equivalence (accepted language + derivation trees) between the grammar extracted from the
source and the reference table, decided by z3 over a symbolic token vector; witnesses replayed on the real parser."""
import json
import os
import re
import struct
import subprocess
import time

import z3

from . import cfgsmt, refgrammar
from .common import ENV, VERIF, EncodingError, log, run_cmd
from .grammar import parse_ctors, parse_grammar


class Syntax:
    """Everything extracted from the snapshot that the E2 checks need."""

    def __init__(self, run):
        self.run = run
        self.lal_src = run.read("src/reval.lalrpop")
        self.ctors = parse_ctors(run.read("src/expr/mod.rs"))
        self.g = parse_grammar(self.lal_src, self.ctors)
        self.alphabet = []      # list of symbols: "T:<text>" / "C:<class>" / "S:<source terminal>" (unmatched)
        self.src_term_ids = {}  # source terminal name -> [alphabet id]
        self.build_alphabet()

    def build_alphabet(self):
        g = self.g
        syms = []

        def sid(s):
            if s not in syms:
                syms.append(s)
            return syms.index(s)
        for lit in sorted(refgrammar.literals()):
            sid(refgrammar.T(lit))
        for cls in refgrammar.CLASS_LEXEME:
            sid(refgrammar.C(cls))
        # which source terminal does each canonical class lexeme belong to? (lowest tier; literal before regex)
        cls_of_term = {}
        for cls, lex in refgrammar.CLASS_LEXEME.items():
            cands = []
            for name in g.order:
                kind, text, tier = g.terminals[name]
                if (kind == "lit" and text == lex) or (kind == "re" and py_fullmatch(text, lex)):
                    cands.append((tier, 0 if kind == "lit" else 1, g.order.index(name), name))
            if cands:
                cands.sort()
                cls_of_term.setdefault(cands[0][3], []).append(cls)
        for name in g.order:
            kind, text, tier = g.terminals[name]
            if kind == "lit":
                self.src_term_ids[name] = [sid(refgrammar.T(text))]
            elif name in cls_of_term:
                self.src_term_ids[name] = [sid(refgrammar.C(c)) for c in cls_of_term[name]]
            else:
                # a regex token that stands for one or more keyword / punctuation spellings (e.g. `(is_)?none`): it covers exactly
                # the reference literals it matches and that no higher-priority literal token of the source takes
                lits = [l for l in sorted(refgrammar.literals()) if py_fullmatch(text, l)
                        and not any(g.terminals[o][0] == "lit" and g.terminals[o][1] == l for o in g.order)]
                self.src_term_ids[name] = [sid(refgrammar.T(l)) for l in lits] or [sid("S:" + name)]
        self.alphabet = syms

    def lexeme(self, aid, pos):
        """Concrete text for alphabet symbol `aid` at token position `pos` (position-tagged so trees are distinguishable)."""
        s = self.alphabet[aid]
        if s.startswith("T:"):
            return s[2:]
        if s.startswith("C:"):
            c = s[2:]
            return {"STRING": f'"s{pos}"', "INT": f"i{pos + 1}", "HEX_INT": f"0x{pos + 1:x}", "OCT_INT": f"0o{pos + 1:o}",
                    "BIN_INT": f"0b{pos + 1:b}", "FLOAT": f"f{pos}.5", "DECIMAL": f"d{pos}.5", "IDENT": f"v{pos}",
                    "INDEX": f"{pos + 3}"}[c]
        # unmatched source terminal: try to synthesise a lexeme from a literal-looking regex
        name = s[2:]
        kind, text, tier = self.g.terminals[name]
        return text if kind == "lit" else re.sub(r"[\\\[\]\(\)\?\*\+\^\$\|]", "", text)


def py_fullmatch(rx, text):
    try:
        return re.fullmatch(rx, text) is not None
    except re.error:
        return False


class Helper:
    """The native helper (real parser / printer / lalrpop matcher) built against the snapshot."""

    def __init__(self, run):
        self.run = run
        self.dir = os.path.join(run.scratch, "helper")
        self.bin = None

    def build(self):
        if self.bin:
            return
        subprocess.run(["rsync", "-a", os.path.join(VERIF, "native", "helper") + "/", self.dir + "/"], check=True)
        lock = os.path.join(self.run.snap, "Cargo.lock")
        if os.path.exists(lock):
            subprocess.run(["cp", lock, os.path.join(self.dir, "Cargo.lock")], check=True)
        rc, out = run_cmd(["cargo", "build", "--offline", "--target-dir", os.path.join(self.run.scratch, "helper-target")],
                          cwd=self.dir, timeout=900)
        if rc != 0:
            raise EncodingError("native helper does not build against the snapshot: " + out[-1500:])
        self.bin = os.path.join(self.run.scratch, "helper-target", "debug", "verif-helper")

    def render_specs(self, specs):
        """Display renderings of expressions given as JSON tree specs (real printer on constructed expressions)."""
        out = []
        for l in self.call("render-spec", specs):
            if not l.startswith("OK "):
                raise EncodingError(f"printer failed on a probe expression: {l[:200]}")
            out.append(json.loads(l[3:]))
        return out

    def call(self, mode, texts, extra=()):
        self.build()
        inp = "\n".join(json.dumps(t) for t in texts) + "\n"
        p = subprocess.run([self.bin, mode] + list(extra), input=inp, capture_output=True, text=True, timeout=600, env=ENV)
        lines = p.stdout.split("\n")
        if lines and lines[-1] == "":
            lines = lines[:-1]
        if len(lines) != len(texts):
            raise EncodingError(f"native helper returned {len(lines)} lines for {len(texts)} inputs (rc={p.returncode}): {p.stderr[-500:]}")
        return lines


# --------------------------------------------------------------------------------------------------------------
def float_bits(x):
    return struct.unpack("<Q", struct.pack("<d", x))[0]


def sexpr_from_records(m, enc, kinds, start, span, toks_text, expr_sym=None):
    """The tree `enc` assigns to `start` over `span`, rendered in the helper's s-expression format."""
    def ev(x):
        return m.eval(x, model_completion=True).as_long()

    def jstr(s):
        return json.dumps(s, ensure_ascii=False)

    def go(sym, sp):
        r = enc.R[sym].get(sp)
        if r is None:
            return f"(?{sym}{sp})"
        kind = kinds.name(ev(r[0]))
        cnt = ev(r[1])
        sl = [(ev(a), ev(b), ev(c)) for a, b, c in r[2]][:max(0, min(cnt, len(r[2])))]

        def sub(q):
            lo, hi, _ = sl[q]
            return go(expr_sym or start, (lo, hi))

        def tok(q):
            return toks_text[sl[q][2]]
        if kind == "String":
            return f"(String {jstr(json.loads(tok(0)))})"
        if kind in ("IntDec", "IntHex", "IntOct", "IntBin"):
            t = tok(0)
            v = int(t[1:]) if kind == "IntDec" else int(t[2:], {"IntHex": 16, "IntOct": 8, "IntBin": 2}[kind])
            return f"(Int {v})"
        if kind == "Float":
            v = float(tok(0)[1:])
            return f"(Float {rust_f64_debug(v)} bits={float_bits(v):016x})"
        if kind == "Decimal":
            t = tok(0)[1:]
            whole, _, frac = t.partition(".")
            return f"(Decimal {int(whole + frac)} scale={len(frac)})"
        if kind == "True":
            return "(Bool true)"
        if kind == "False":
            return "(Bool false)"
        if kind == "NoneLit":
            return "(NoneLit)"
        if kind in ("Reference", "Symbol"):
            return f"({kind} {jstr(tok(0))})"
        if kind == "Function":
            return f"(Function {jstr(tok(0))} {sub(1)})"
        if kind == "IndexField":
            return f"(IndexField {sub(0)} {jstr(tok(1))})"
        if kind == "IndexNum":
            return f"(IndexNum {sub(0)} {int(tok(1))})"
        if kind == "Vec":
            return "(Vec" + "".join(" " + sub(q) for q in range(len(sl))) + ")"
        if kind == "Map":
            d = {}
            for q in range(len(sl)):
                d[toks_text[sl[q][2]]] = sub(q)     # later duplicates win; BTreeMap orders by key
            return "(Map" + "".join(f" ({jstr(k)} {d[k]})" for k in sorted(d)) + ")"
        if kind == "Rule":
            metas = [(toks_text[sl[q][2]], sub(q)) for q in range(len(sl) - 1)]
            return ("RULE", metas, sub(len(sl) - 1))
        return f"({kind}" + "".join(" " + sub(q) for q in range(len(sl))) + ")"
    return go(start, span)


def rust_f64_debug(v):
    # Rust's {:?} for f64 of the form <int>.5 used by canonical lexemes
    s = repr(float(v))
    return s


def equivalence(run, syn, helper, start, n_max, budget_s, validate=3, M=4):
    """For n = 1..n_max ask z3 for a token vector on which source grammar and reference differ (acceptance or tree)."""
    g = syn.g
    ref_prods, ref_nts, ref_start = refgrammar.reference()
    if start not in g.starts:
        raise EncodingError(f"the source grammar has no public start symbol {start}")
    alpha = syn.alphabet
    ref_term_ids = {}
    for p in ref_prods:
        for s in p.rhs:
            if s.startswith(("T:", "C:")):
                ref_term_ids[s] = [alpha.index(s)]
    src_terms = dict(syn.src_term_ids)
    t_all = time.time()
    reached = 0
    for n in range(1, n_max + 1):
        if time.time() - t_all > budget_s:
            run.inconc(f"{start}-n{n}", f"time budget of {budget_s}s exhausted before n={n}", mandatory=(n <= max(4, n_max - 2)))
            break
        t0 = time.time()
        s = z3.Solver()
        s.set("timeout", int(max(30, budget_s - (time.time() - t_all)) * 1000))
        toks = [z3.Int(f"t{i}") for i in range(n)]
        for t in toks:
            s.add(t >= 0, t < len(alpha))
        kinds = cfgsmt.KindTable()
        es = cfgsmt.encode(s, g.prods, g.nts, src_terms, toks, n, "s", kinds, M)
        er = cfgsmt.encode(s, ref_prods, ref_nts, ref_term_ids, toks, n, "r", kinds, M)
        S_E, R_E = "Expr", ref_start["Expr"]
        S_top, R_top = start, ref_start[start]
        same = {}

        def rec_same(ra, rb, child_same):
            parts = [ra[0] == rb[0], ra[1] == rb[1]]
            for q in range(M):
                used = q < ra[1]
                eq = z3.And(ra[2][q][0] == rb[2][q][0], ra[2][q][1] == rb[2][q][1], ra[2][q][2] == rb[2][q][2])
                parts.append(z3.Implies(used, eq))
                for (k, l), sv in child_same.items():
                    parts.append(z3.Implies(z3.And(used, ra[2][q][0] == k, ra[2][q][1] == l), sv))
            return z3.And(parts)
        for length in range(1, n + 1):
            for i in range(0, n - length + 1):
                j = i + length
                ra, rb = es.R.get(S_E, {}).get((i, j)), er.R[R_E].get((i, j))
                if ra is None or rb is None:
                    continue
                inner = {(k, l): v for (k, l), v in same.items() if k >= i and l <= j and (k, l) != (i, j)}
                v = z3.Bool(f"same_{i}_{j}")
                s.add(v == rec_same(ra, rb, inner))
                same[(i, j)] = v
        da = es.D.get(S_top, {}).get((0, n), z3.BoolVal(False))
        db = er.D[R_top].get((0, n), z3.BoolVal(False))
        if S_top == S_E:
            top_same = same.get((0, n), z3.BoolVal(True))
        else:
            ra, rb = es.R.get(S_top, {}).get((0, n)), er.R[R_top].get((0, n))
            top_same = rec_same(ra, rb, same) if (ra is not None and rb is not None) else z3.BoolVal(True)
        s.push()
        s.add(z3.Or(da != db, z3.And(da, db, z3.Not(top_same))))
        t_enc = time.time() - t0
        if os.environ.get("VERIF_DUMP_SMT"):
            with open(os.path.join(os.environ["VERIF_DUMP_SMT"], f"{run.prop}-{start}-n{n}.smt2"), "w") as f:
                f.write("(set-logic ALL)\n" + s.to_smt2())
        found = 0
        verdict = "pass"
        while True:
            t1 = time.time()
            r = s.check()
            run.solver_time_s += time.time() - t1
            if r == z3.unknown:
                verdict = "unknown"
                run.inconc(f"{start}-n{n}", f"z3 returned unknown ({s.reason_unknown()})", mandatory=(n <= n_max - 2))
                break
            if r == z3.unsat:
                break
            m = s.model()
            ids = [m.eval(t, model_completion=True).as_long() for t in toks]
            texts = [syn.lexeme(a, p) for p, a in enumerate(ids)]
            src_acc = z3.is_true(m.eval(da, model_completion=True))
            ref_acc = z3.is_true(m.eval(db, model_completion=True))
            exp_ref = sexpr_from_records(m, er, kinds, R_top, (0, n), texts, R_E) if ref_acc else None
            exp_src = sexpr_from_records(m, es, kinds, S_top, (0, n), texts, S_E) if src_acc else None
            outcome = confront(run, syn, helper, start, texts, exp_ref, exp_src)
            found += 1
            verdict = "fail"
            s.add(z3.Or([t != v for t, v in zip(toks, ids)]))
            if found >= 3 or outcome == "encoding-error":
                break
        s.pop()
        run.obligation(f"{start}-equivalence-n{n}", "z3-query", verdict, time.time() - t0,
                       bounds={"tokens": n, "alphabet": len(alpha), "max_list_items": M},
                       encode_s=round(t_enc, 2), witnesses=found, nontrivial=True)
        reached = n
        # ---- validate the extraction against the real parser on strings the source grammar accepts
        if validate:
            s.add(da)
            for k in range(validate):
                if s.check() != z3.sat:
                    break
                m = s.model()
                ids = [m.eval(t, model_completion=True).as_long() for t in toks]
                texts = [syn.lexeme(a, p) for p, a in enumerate(ids)]
                exp_src = sexpr_from_records(m, es, kinds, S_top, (0, n), texts, S_E)
                got = norm_real(real_parse(syn, helper, start, texts))
                want = expected_real(start, exp_src)
                run.extra["traces_validated_against_impl"] = run.extra.get("traces_validated_against_impl", 0) + 1
                if got != want:
                    raise EncodingError(f"extracted grammar disagrees with the real parser on {' '.join(texts)!r}: "
                                        f"model {want} / real {got}")
                s.add(z3.Or([t != v for t, v in zip(toks, ids)]))
    return reached


def render(texts):
    return " ".join(texts)


def real_parse(syn, helper, start, texts):
    text = render(texts)
    if start == "Rule":
        return helper.call("rule", ["// n\n" + text])[0]
    return helper.call("parse", [text])[0]


def is_constant(sx):
    """RuleBuilder accepts only constant metadata: literals, lists and maps of constants."""
    s = sx.strip()
    if s.startswith(("(String", "(Int", "(Float", "(Decimal", "(Bool", "(NoneLit")):
        return True
    if s.startswith("(Vec") or s.startswith("(Map"):
        # every Reference / operator node inside makes it non-constant
        return not re.search(r"\((?!Vec|Map|String|Int|Float|Decimal|Bool|NoneLit|\")[A-Za-z]", s[1:])
    return False


def value_sexpr(sx):
    """Expression s-expr of a constant -> the helper's Value s-expr."""
    return sx.replace("(Vec", "(VecValue").replace("(Map", "(MapValue")


def expected_real(start, exp):
    """What the real entry point must print for a tree the grammar-level model assigns."""
    if exp is None:
        return "ERR"
    if start != "Rule":
        return "OK " + exp
    _, metas, expr = exp
    for k, v in metas:
        if not is_constant(v):
            return "ERR"
    d = {}
    for k, v in metas:
        if k == "name":
            continue
        d[k] = value_sexpr(v)
    meta = "".join(f" ({json.dumps(k)} {d[k]})" for k in sorted(d))
    return f'OK (Rule name="n" desc=null (Meta{meta}) {expr})'


def norm_real(got):
    return "ERR" if got.startswith("ERR") else got


def confront(run, syn, helper, start, texts, exp_ref, exp_src):
    """A solver witness: the real parser decides who is right."""
    got = norm_real(real_parse(syn, helper, start, texts))
    want_ref = expected_real(start, exp_ref)
    want_src = expected_real(start, exp_src)
    text = render(texts)
    if got.startswith("PANIC"):
        run.finding(f"{start}:{' '.join(kind_word(t) for t in texts)}", "parser-panic", f"the parser panics on {text!r}",
                    {"text": text, "real": got})
        return "violation"
    if got != want_ref:
        cls = "accepts-underivable" if want_ref == "ERR" else ("rejects-derivable" if got == "ERR" else "different-tree")
        run.finding(f"{start}:{' '.join(kind_word(t) for t in texts)}", cls,
                    f"{text!r}: reference table gives {want_ref}, the real parser gives {got}",
                    {"entry": start, "text": text, "reference": want_ref, "real": got})
        return "violation"
    # the real parser agrees with the reference, so the model of the source grammar is wrong
    run.inconc(f"{start}:{text}", f"solver witness {text!r} does not reproduce: real parser = reference = {got}, "
               f"extracted-grammar model = {want_src} (extraction/encoding error)", mandatory=True)
    return "encoding-error"


def kind_word(t):
    if re.fullmatch(r"v\d+", t):
        return "IDENT"
    if re.fullmatch(r"i\d+", t):
        return "INT"
    if re.fullmatch(r"\d+", t):
        return "INDEX"
    if t.startswith('"'):
        return "STRING"
    if re.fullmatch(r"f\d+\.5", t):
        return "FLOAT"
    if re.fullmatch(r"d\d+\.5", t):
        return "DECIMAL"
    if re.fullmatch(r"0x[0-9a-f]+", t):
        return "HEX"
    if re.fullmatch(r"0o[0-7]+", t):
        return "OCT"
    if re.fullmatch(r"0b[01]+", t):
        return "BIN"
    return t


def replay_text(run, rec, path):
    helper = Helper(run)
    rp = rec["replay"]
    entry = rp.get("entry", "Expr")
    got = helper.call("parse" if entry == "Expr" else "rule", [rp["text"] if entry == "Expr" else "// n\n" + rp["text"]])[0]
    got = norm_real(got)
    print(f"replay: {rp['text']!r}\n  reference: {rp['reference']}\n  real now:  {got}")
    if got != rp["reference"]:
        print(f"VIOLATION property={rec['property']} replay={path}")
        return 1
    return 0
