"""Native replay of E3 counterexamples: the solver's model becomes a concrete scenario on reval's public API (native/helper,
mode `scenario`), the specification case becomes concrete expected observations; only a scenario whose real observations differ from
the expectation is reported as a violation."""
import json

import z3

from . import e3
from .mir.harness import Env
from .mir.symex import VAL, map_at, map_has, vec_at, vec_len

L = Env


class Unrealisable(Exception):
    pass


def _idx(s):
    digits = "".join(c for c in str(s).split("!")[-1] if c.isdigit())
    return int(digits or "0")


class Concretizer:
    def __init__(self, model, key_terms=()):
        self.M = model
        self.key_terms = list(key_terms)

    def ev(self, t):
        return self.M.eval(t, model_completion=True)

    def boolean(self, t):
        return z3.is_true(self.ev(t))

    def string(self, t):
        v = self.ev(t)
        if z3.is_string_value(v):
            return v.as_string()
        raise Unrealisable(f"no concrete string for {t}")

    def integer(self, t):
        v = self.ev(t)
        if z3.is_int_value(v):
            return v.as_long()
        raise Unrealisable(f"no concrete integer for {t}")

    def value(self, t, depth=0):
        v = self.ev(t)
        if depth > 3:
            return {"t": "None"}
        name = v.decl().name()
        if name == "None_":
            return {"t": "None"}
        if name == "Bool":
            return {"t": "Bool", "v": z3.is_true(v.arg(0))}
        if name == "Int":
            n = v.arg(0).as_long()
            if not (-(1 << 127) <= n < (1 << 127)):
                raise Unrealisable("integer outside i128")
            return {"t": "Int", "v": str(n)}
        if name == "Float":
            f = v.arg(0)
            if z3.is_fp_value(f):
                if f.isNaN():
                    return {"t": "Float", "v": "NaN"}
                if f.isInf():
                    return {"t": "Float", "v": "-oo" if f.isNegative() else "+oo"}
                return {"t": "Float", "v": repr(float(f.as_decimal(30).rstrip("?")) if not f.isZero() else (-0.0 if f.isNegative() else 0.0))}
            return {"t": "Float", "v": "1.5"}
        if name == "String":
            return {"t": "String", "v": v.arg(0).as_string()}
        if name == "Decimal":
            return {"t": "Decimal", "v": str(_idx(v.arg(0)) + 1)}
        if name == "DateTime":
            return {"t": "DateTime", "v": _idx(v.arg(0)) + 1000}
        if name == "Duration":
            return {"t": "Duration", "v": _idx(v.arg(0)) + 10}
        if name == "Vec":
            vid = v.arg(0)
            n = self.integer(vec_len(vid))
            if n < 0 or n > 8:
                raise Unrealisable(f"list length {n} in the model")
            return {"t": "Vec", "v": [self.value(vec_at(vid, z3.IntVal(i)), depth + 1) for i in range(n)]}
        if name == "Map":
            mid = v.arg(0)
            ent = {}
            for kt in self.key_terms:
                k = self.string(kt)
                if self.boolean(map_has(mid, z3.StringVal(k))):
                    ent[k] = self.value(map_at(mid, z3.StringVal(k)), depth + 1)
            return {"t": "Map", "v": sorted([[k, x] for k, x in ent.items()])}
        raise Unrealisable(f"model value {v}")


def probe(k):
    return {"k": "probe", "id": k}


def lit(vj):
    return {"k": "Value", "v": vj}


def leaf_plans(C, ks):
    plans = {}
    for k in ks:
        okb = C.boolean(L.leaf_ok(k))
        plans[str(k)] = {"res": {"ok": C.value(L.leaf_val(k))} if okb else {"err": f"leaf{k}"},
                         "pending": 1 if C.boolean(z3.Bool(f"leaf{k}.0.pending0")) else 0}
    return plans


def expected_result(C, exp, ctx):
    k, t = exp.kind, exp.terms
    if k == "ok_val":
        if any(t[0].eq(e3.apply_val(n)) for n in range(2)):
            return ("same-as-literal",)
        return {"ok": C.value(t[0])}
    if k == "err_opq":
        for i in range(4):
            if t[0].eq(L.leaf_err(i)):
                return {"err": {"variant": "UserFunctionError", "a": "probe", "b": f"leaf{i}"}}
        if any(t[0].eq(e3.apply_err(n)) for n in range(2)):
            return ("same-as-literal",)
        raise Unrealisable(f"opaque error {t[0]}")
    if k == "err_var":
        d = {"variant": t[0]}
        if t[1] is not None:
            d["a"] = C.string(t[1])
        return {"err": d}
    if k == "err_userfn":
        for n in range(4):
            if t[1].eq(e3.call_err(n)):
                return {"err": {"variant": "UserFunctionError", "a": C.string(t[0]), "b": f"call{n}"}}
        raise Unrealisable(f"user-function error {t[1]}")
    if k == "ok_vec":
        return {"ok": {"t": "Vec", "v": [C.value(x) for x in t[0]]}}
    if k == "ok_map":
        return {"ok": {"t": "Map", "v": sorted([[C.string(a), C.value(b)] for a, b in t[0]])}}
    raise Unrealisable(f"expectation {k}")


def expected_log(C, log_):
    out = []
    for e in log_ or []:
        if e[0] == "eval":
            out.append(["eval", e[1]])
        elif e[0] == "call":
            out.append(["call", C.string(e[1]), C.value(e[2])])
    return out


def dispatcher_scenario(node, shape, cex):
    """-> (scenario, main rule index, expected result, expected log) for a dispatcher-level counterexample."""
    M = cex["_model"]
    case = cex["_case"]
    key_terms = [z3.String(n) for n in ("ref.name", "index.key", "fn.name", "sym.name")]
    C = Concretizer(M, key_terms)
    builder = [{"op": "probe"}]
    rules = []
    pre_log = []
    nleaf = {"If": 3}.get(node, 2)
    sc = {"facts": {"t": "None"}}
    if node == "Value":
        root = lit(C.value(z3.Const("literal", VAL)))
        nleaf = 0
    elif node == "Reference":
        root = {"k": "Reference", "n": C.string(z3.String("ref.name"))}
        sc["facts"] = C.value(z3.Const("facts", VAL))
        nleaf = 0
        rn = z3.String("ref.name")
        if C.boolean(e3.sym_has(rn)):          # a symbol of the same name exists in the model: it must not influence a reference
            builder.append({"op": "symbol", "name": C.string(rn), "value": C.value(e3.sym_at(rn))})
    elif node == "Symbol":
        name = z3.String("sym.name")
        root = {"k": "Symbol", "n": C.string(name)}
        if C.boolean(e3.sym_has(name)):
            builder.append({"op": "symbol", "name": C.string(name), "value": C.value(e3.sym_at(name))})
        nleaf = 0
    elif node == "Index":
        nleaf = 1
        if shape == "_field":
            root = {"k": "Index", "c": [probe(0)], "i": {"f": C.string(z3.String("index.key"))}}
        else:
            p = C.integer(z3.Int("index.pos"))
            root = {"k": "Index", "c": [probe(0)], "i": {"n": p}}
    elif node == "Function":
        nleaf = 1
        name = z3.String("fn.name")
        nm = C.string(name)
        root = {"k": "Function", "n": nm, "c": [probe(0)]}
        if C.boolean(e3.fn_registered(name)):
            cach = C.boolean(e3.fn_cacheable(name))
            results = []
            v0 = L.leaf_val(0)
            key = z3.Concat(name, z3.StringVal("-"), e3.dbg_of(v0))
            if cach and C.boolean(L.leaf_ok(0)) and C.boolean(e3.cache_has(key)):
                # the arbitrary cache content is realised by an earlier rule of the same evaluation calling f on the same argument
                results.append({"ok": C.value(e3.cache_at(key))})
                rules.append({"op": "rule", "name": "prefill", "expr": {"k": "Function", "n": nm, "c": [lit(C.value(v0))]}})
                pre_log.append(["call", nm, C.value(v0)])
            first_ok = C.boolean(e3.call_ok(0))
            results.append({"ok": C.value(e3.call_val(0))} if first_ok else {"err": "call0"})
            results.append({"ok": {"t": "String", "v": "FOLLOW-UP-INVOCATION"}})
            builder.append({"op": "function", "name": nm, "cacheable": cach, "results": results,
                            "pending": 1 if C.boolean(z3.Bool("call0.pending0")) else 0})
            if C.boolean(L.leaf_ok(0)):
                # make the cache's post-state observable: the same call once more, later in the same evaluation
                followup = {"hit": bool(pre_log), "cach": cach, "first_ok": first_ok, "nm": nm, "arg": C.value(v0),
                            "first": results[-2], "prefill": results[0] if pre_log else None}
    elif node == "Vec":
        nleaf = int(shape[1:])
        root = {"k": "Vec", "c": [probe(i) for i in range(nleaf)]}
    elif node == "Map":
        nleaf = int(shape[1:])
        root = {"k": "Map", "m": [[C.string(z3.String(f"mapkey{i}")), probe(i)] for i in range(nleaf)]}
    else:
        if node == "If":
            nleaf = 3
        else:
            nleaf = len([1 for i in range(2) if any(d.name() == f"leaf{i}.0.ok" for d in M.decls())]) or (2 if node in e3.LAZY else 1)
        root = {"k": node, "c": [probe(i) for i in range(nleaf)]}
    sc["probes"] = leaf_plans(C, range(nleaf))
    # leaves whose node kind the model fixes to Reference are realised as references into the input (their failure is an unknown field)
    ref_leaves = {}
    if sc["facts"] == {"t": "None"} and node not in ("Reference", "Index", "Function", "Symbol", "Value"):
        variants = e3.expr_variants_cached
        for k in range(nleaf):
            if any(d.name() == f"leaf{k}.kind" for d in M.decls()) and variants:
                kind = variants[C.integer(z3.Int(f"leaf{k}.kind"))]
                if kind == "Reference":
                    ref_leaves[k] = True
                elif kind in ("Value", "Symbol"):
                    raise Unrealisable(f"leaf {k} of kind {kind} cannot be observed natively")
        if ref_leaves:
            ent = []
            for k in ref_leaves:
                plan = sc["probes"][str(k)]
                if "ok" in plan["res"]:
                    ent.append([f"leaf{k}", plan["res"]["ok"]])
            sc["facts"] = {"t": "Map", "v": sorted(ent)}

            def swap(e):
                if isinstance(e, dict):
                    if e.get("k") == "probe" and e.get("id") in ref_leaves:
                        return {"k": "Reference", "n": f"leaf{e['id']}"}
                    return {kk: swap(vv) for kk, vv in e.items()}
                if isinstance(e, list):
                    return [swap(x) for x in e]
                return e
            root = swap(root)
    main = len(rules)
    rules.append({"op": "rule", "name": "main", "expr": root})
    fu = locals().get("followup")
    post_log, fu_exp = [], None
    if fu is not None:
        rules.append({"op": "rule", "name": "followup", "expr": {"k": "Function", "n": fu["nm"], "c": [lit(fu["arg"])]}})
        if fu["cach"] and fu["hit"]:
            fu_exp = fu["prefill"]
        elif fu["cach"] and fu["first_ok"]:
            fu_exp = fu["first"]
        else:
            fu_exp = {"ok": {"t": "String", "v": "FOLLOW-UP-INVOCATION"}}
            post_log = [["call", fu["nm"], fu["arg"]]]
    exp = expected_result(C, case.result, None) if case.result is not None else None
    if exp == ("same-as-literal",):
        # strict node: the node on probe children must give what the same node gives on literal children with the same values
        rules.append({"op": "rule", "name": "literal", "expr": {"k": node, "c": [lit(C.value(L.leaf_val(i))) for i in range(nleaf)]}})
    sc["builder"] = builder + rules
    if ref_leaves:
        if isinstance(exp, dict) and "err" in exp and exp["err"].get("a") == "probe":
            for k in ref_leaves:
                if exp["err"].get("b") == f"leaf{k}":
                    exp = {"err": {"variant": "UnknownRef", "a": f"leaf{k}"}}
        elog = [e for e in expected_log(C, case.log) if not (e[0] == "eval" and e[1] in ref_leaves)]
        return sc, main, exp, pre_log + elog + post_log
    if fu_exp is not None and exp is not None and exp != ("same-as-literal",):
        exp = ("with-followup", exp, fu_exp)
    return sc, main, exp, pre_log + expected_log(C, case.log) + post_log


def run_scenario(helper, sc):
    line = helper.call("scenario", [sc])[0]
    if not line.startswith("OK "):
        return {"panic": line}
    return json.loads(line[3:])


def norm(x):
    return json.dumps(x, sort_keys=True)


def judge(obs, main, exp, exp_log):
    """-> (differs: bool, description)"""
    if "panic" in obs:
        return True, f"native run panicked: {obs['panic'][:200]}"
    if obs.get("aborted") and not (isinstance(exp, (tuple, list)) and exp and exp[0] == "steps"):
        raise Unrealisable(f"the scenario could not be built through the public API: {obs.get('steps')}")
    outs = obs["runs"][0]["outcomes"] if obs.get("runs") else []
    if isinstance(exp, (tuple, list)) and exp and exp[0] == "outcomes":
        diffs = []
        got_all = [o["value"] for o in outs]
        if norm(got_all) != norm(list(exp[1])) or [o["rule"] for o in outs] != list(exp[2]):
            diffs.append(f"outcomes {norm(outs)} but the specification gives values {norm(exp[1])} for rules {exp[2]}")
        if exp_log is not None and norm(obs["log"]) != norm(exp_log):
            diffs.append(f"evaluation/call log {norm(obs['log'])} but the specification gives {norm(exp_log)}")
        return bool(diffs), "; ".join(diffs)
    if isinstance(exp, (tuple, list)) and exp and exp[0] == "steps":
        diffs = []
        if norm(obs.get("steps")) != norm(list(exp[1])):
            diffs.append(f"builder calls answered {norm(obs.get('steps'))} but the specification gives {norm(exp[1])}")
        elif len(exp) > 2 and exp[2] is not None and not obs.get("aborted"):
            got_all = [[o["rule"], o["value"]] for o in outs]
            if norm(got_all) != norm(exp[2]):
                diffs.append(f"built ruleset gives {norm(got_all)} but the specification gives {norm(exp[2])}")
        return bool(diffs), "; ".join(diffs)
    got = outs[main]["value"]
    if isinstance(exp, (tuple, list)) and exp and exp[0] == "with-followup":
        diffs = []
        if norm(got) != norm(exp[1]):
            diffs.append(f"outcome {norm(got)} but the specification gives {norm(exp[1])}")
        fo = outs[main + 1]["value"]
        if norm(fo) != norm(exp[2]):
            diffs.append(f"the same call later in the evaluation gives {norm(fo)} but the specification gives {norm(exp[2])}")
        if exp_log is not None and norm(obs["log"]) != norm(exp_log):
            diffs.append(f"evaluation/call log {norm(obs['log'])} but the specification gives {norm(exp_log)}")
        return bool(diffs), "; ".join(diffs)
    if exp == ("same-as-literal",):
        exp = outs[main + 1]["value"]
    diffs = []
    if exp is not None and norm(got) != norm(exp):
        diffs.append(f"outcome {norm(got)} but the specification gives {norm(exp)}")
    if exp_log is not None and norm(obs["log"]) != norm(exp_log):
        diffs.append(f"evaluation/call log {norm(obs['log'])} but the specification gives {norm(exp_log)}")
    return bool(diffs), "; ".join(diffs)


def confirm(run, helper, oid, d, build):
    """Replay every counterexample of obligation d natively. build(cex) -> (scenario, main, exp, exp_log).
    Confirmed ones become findings; an obligation whose counterexamples do not reproduce becomes inconclusive."""
    confirmed = 0
    notes = []
    seen = set()
    tried = {}
    for cex in d.get("cex", []):
        if cex["case"] in seen or tried.get(cex["case"], 0) >= 8:
            continue
        tried[cex["case"]] = tried.get(cex["case"], 0) + 1
        try:
            sc, main, exp, exp_log = build(cex)
            obs = run_scenario(helper, sc)
            differs, what = judge(obs, main, exp, exp_log)
        except Unrealisable as e:
            notes.append(f"{cex['case']}: model not realisable natively ({e})")
            continue
        if differs:
            seen.add(cex["case"])
            confirmed += 1
            run.finding(oid, cex["case"], f"{cex['why']}; natively: {what}",
                        {"engine": "e3", "scenario": sc, "main": main, "expected": exp, "expected_log": exp_log, "observed": obs})
        else:
            notes.append(f"{cex['case']}: the solver's scenario behaves as specified natively")
    for c in d.get("cex", []):
        c.pop("_model", None)
        c.pop("_case", None)
    d["replay_notes"] = notes
    if d["verdict"] == "fail" and not confirmed:
        d["verdict"] = "inconclusive"
        d["reason"] = "counterexample(s) did not reproduce natively: " + "; ".join(notes)[:300]
    return confirmed


def replay_file(run, path):
    """./check Cxx --replay <path> for an E3 finding: re-run the stored scenario on the current tree."""
    from .synx import Helper
    rec = json.load(open(path))
    rp = rec["replay"]
    helper = Helper(run)
    obs = run_scenario(helper, rp["scenario"])
    exp = rp["expected"]
    if isinstance(exp, list):
        exp = tuple(exp)
    try:
        differs, what = judge(obs, rp["main"], exp, rp["expected_log"])
    except Unrealisable as e:
        print(f"replay {path}: {e}")
        return 2
    if differs:
        print(f"VIOLATION property={rec['property']} replay={path}")
        print(f"  cell={rec['cell']} class={rec['class']}: {what}")
        return 1
    print(f"replay {path}: the scenario behaves as specified on the current tree")
    return 0


# ------------------------------------------------------------------------------------------------ other families
def two_calls_build(cex):
    sc, C, names = e3.two_calls_scenario(cex)
    case = cex["_case"]
    pair = case.result
    a = expected_result(C, pair.terms[0], None)
    b = expected_result(C, pair.terms[1], None)
    return sc, 0, ("outcomes", [a, b], ["first", "second"]), expected_log(C, case.log)


ASCII_IDENT = __import__("re").compile(r"^[A-Za-z_][A-Za-z0-9_]*$")


def builder_build(info, cex, keywords):
    M = cex["_model"]
    C = Concretizer(M)
    op = info["op"]
    S = lambda n: C.string(z3.String(n))       # noqa: E731
    none_rule = lambda nm: {"op": "rule", "name": nm, "expr": lit({"t": "None"})}   # noqa: E731
    if op in ("with_rule", "with_rules"):
        names = [S(f"rule{i}.name") for i in range(info["k"])]
        if len(set(names)) != len(names):
            raise Unrealisable("pre-state with duplicate rule names")
        ops = [none_rule(n) for n in names]
        steps = [{"ok": True}] * len(names)
        if op == "with_rule":
            new = S("new.name")
            ops.append(none_rule(new))
            if new in names:
                steps = steps + [{"err": {"variant": "DuplicateRuleName", "a": new}}]
                final = None
            else:
                steps = steps + [{"ok": True}]
                final = [[n, {"ok": {"t": "None"}}] for n in names + [new]]
        else:
            batch = [S(f"batch{i}.name") for i in range(info["m"])]
            ops.append({"op": "rules", "rules": [{"name": b, "expr": lit({"t": "None"})} for b in batch]})
            seen = list(names)
            dup = None
            for b in batch:
                if b in seen:
                    dup = b
                    break
                seen.append(b)
            if dup is not None:
                steps = steps + [{"err": {"variant": "DuplicateRuleName", "a": dup}}]
                final = None
            else:
                steps = steps + [{"ok": True}]
                final = [[n, {"ok": {"t": "None"}}] for n in seen]
        return {"facts": {"t": "None"}, "builder": ops}, 0, ("steps", steps, final), None
    if op == "add_function":
        nm = S("newfn.name")
        if not nm.isascii():
            raise Unrealisable("non-ASCII function name in the model")
        already = C.boolean(e3.fn_registered(z3.StringVal(nm)))
        valid = bool(ASCII_IDENT.match(nm)) and nm not in keywords
        ops, steps = [], []
        if already:
            if not valid:
                raise Unrealisable("the model registers an ill-formed name")
            ops.append({"op": "function", "name": nm, "results": []})
            steps.append({"ok": True})
        ops.append({"op": "function", "name": nm, "results": []})
        if not valid:
            steps.append({"err": {"variant": "InvalidFunctionName", "a": nm}})
        elif already:
            steps.append({"err": {"variant": "DuplicateFunctionName", "a": nm}})
        else:
            steps.append({"ok": True})
        return {"facts": {"t": "None"}, "builder": ops}, 0, ("steps", steps, None), None
    if op == "functions":
        m = info["m"]
        names = [S(f"newfn{i}.name") for i in range(m)]
        if any(not n.isascii() for n in names):
            raise Unrealisable("non-ASCII function name in the model")
        valid = [bool(ASCII_IDENT.match(n)) and n not in keywords for n in names]
        ops, steps, have = [], [], set()
        for n in set(names):
            if C.boolean(e3.fn_registered(z3.StringVal(n))):
                if not (ASCII_IDENT.match(n) and n not in keywords):
                    raise Unrealisable("the model registers an ill-formed name")
                ops.append({"op": "function", "name": n, "results": []})
                steps.append({"ok": True})
                have.add(n)
        res = {"ok": True}
        for i, n in enumerate(names):
            if not valid[i]:
                res = {"err": {"variant": "InvalidFunctionName", "a": n}}
                break
            if n in have:
                res = {"err": {"variant": "DuplicateFunctionName", "a": n}}
                break
            have.add(n)
        ops.append({"op": "function", "name": names[0], "results": []} if m == 1 else {"op": "functions", "names": names})
        return {"facts": {"t": "None"}, "builder": ops}, 0, ("steps", steps + [res], None), None
    if op == "symbols":
        a, b, q = S("symA.name"), S("symB.name"), S("query.name")
        va, vb = C.value(z3.Const("symA.val", VAL)), C.value(z3.Const("symB.val", VAL))
        ops = []
        pre = {}
        size = None
        for d in M.decls():
            if d.name() == "map_size_symbols":
                size = C.integer(d(z3.IntVal(0)))
        for nm in (q, b, a):        # the queried name first: entries the model does not need are dropped when the table is smaller
            if nm not in pre and C.boolean(e3.sym_has(z3.StringVal(nm))) and (size is None or len(pre) < size):
                pre[nm] = C.value(e3.sym_at(z3.StringVal(nm)))
        if size is not None:
            if size > 12:
                raise Unrealisable(f"symbol table size {size} in the model")
            for i in range(size - len(pre)):
                pre[f"zz_filler_{i}"] = {"t": "None"}
        for nm, v in pre.items():
            ops.append({"op": "symbol", "name": nm, "value": v})
        older = pre.get(q)
        shape = info["shape"]
        if shape == "insert_insert":
            ops += [{"op": "symbol", "name": a, "value": va}, {"op": "symbol", "name": b, "value": vb}]
        elif shape == "insert_append1":
            ops += [{"op": "symbol", "name": a, "value": va}, {"op": "symbols", "entries": [[b, vb]]}]
        else:
            if a == b:
                raise Unrealisable("a map with two equal keys")
            ops += [{"op": "symbols", "entries": [[a, va], [b, vb]]}]
        ops.append({"op": "rule", "name": "main", "expr": {"k": "Symbol", "n": q}})
        if q == b:
            exp = {"ok": vb}
        elif q == a:
            exp = {"ok": va}
        elif older is not None:
            exp = {"ok": older}
        else:
            exp = {"err": {"variant": "InvalidSymbol", "a": q}}
        return {"facts": {"t": "None"}, "builder": ops}, 0, exp, None
    raise Unrealisable(f"builder family {op}")
