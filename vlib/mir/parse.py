"""E3 front end: parse rustc's textual MIR dump (`-Zunpretty=mir -Ztrim-diagnostic-paths=no`) into Python structures.

Only the shapes that occur in function bodies are understood; anything else raises MirSyntax, which the drivers turn into
"cannot encode" (exit 2), never into a verdict.
"""
import re


class MirSyntax(Exception):
    pass


CHARLIT = re.compile(r"'(\\u\{[0-9a-fA-F]+\}|\\.|[^\\'])'")
OPEN = {"(": ")", "[": "]", "{": "}", "<": ">"}
CLOSE = {v: k for k, v in OPEN.items()}


def skip_balanced(s, i, stop):
    """Scan s from i until one of the characters in `stop` is found at nesting depth 0. Returns its index (or len(s))."""
    depth = []
    n = len(s)
    while i < n:
        c = s[i]
        if c == '"':                       # string literal
            i += 1
            while i < n and s[i] != '"':
                i += 2 if s[i] == "\\" else 1
            i += 1
            continue
        if c == "'":
            m = CHARLIT.match(s, i)
            if m:
                i = m.end()
                continue
        if c == "-" and i + 1 < n and s[i + 1] == ">":
            if not depth and "->" in stop:
                return i
            i += 2
            continue
        if c == "=" and i + 1 < n and s[i + 1] == ">":
            i += 2
            continue
        if not depth and c in stop:
            return i
        if c in OPEN:
            depth.append(c)
        elif c in CLOSE:
            if depth and depth[-1] == CLOSE[c]:
                depth.pop()
            elif not depth:
                return i if c in stop else i
            # an unmatched '>' (comparison) is ignored
        i += 1
    return n


def split_top(s, sep=","):
    out = []
    i = 0
    start = 0
    while True:
        j = skip_balanced(s, i, sep)
        if j >= len(s):
            last = s[start:].strip()
            if last:
                out.append(last)
            return out
        out.append(s[start:j].strip())
        i = start = j + 1


# ------------------------------------------------------------------------------------------------ places / operands
class Place:
    __slots__ = ("local", "proj")

    def __init__(self, local, proj=()):
        self.local = local
        self.proj = tuple(proj)          # ('deref',) ('field', n, ty) ('downcast', name) ('index', local) ('constindex', n, m, from_end)

    def __repr__(self):
        return f"_{self.local}{''.join(str(p) for p in self.proj)}"


def parse_place(s):
    s = s.strip()
    p, i = _place(s, 0)
    if s[i:].strip():
        raise MirSyntax(f"trailing text in place {s!r}")
    return p


def _place(s, i):
    while i < len(s) and s[i] == " ":
        i += 1
    if s.startswith("(*", i):
        inner, j = _place(s, i + 2)
        if s[j] != ")":
            raise MirSyntax(f"bad deref place {s[i:]!r}")
        p = Place(inner.local, inner.proj + (("deref",),))
        j += 1
    elif s.startswith("(", i):
        inner, j = _place(s, i + 1)
        if s.startswith(" as ", j):
            k = skip_balanced(s, j + 4, ")")
            p = Place(inner.local, inner.proj + (("downcast", s[j + 4:k].strip()),))
            j = k + 1
        elif s.startswith(".", j):
            m = re.match(r"\.(\d+): ", s[j:])
            if not m:
                raise MirSyntax(f"bad field projection {s[j:]!r}")
            k = skip_balanced(s, j + m.end(), ")")
            p = Place(inner.local, inner.proj + (("field", int(m.group(1)), s[j + m.end():k].strip()),))
            j = k + 1
        else:
            raise MirSyntax(f"bad parenthesised place {s[i:]!r}")
    else:
        m = re.match(r"_(\d+)", s[i:])
        if not m:
            raise MirSyntax(f"bad place {s[i:]!r}")
        p = Place(int(m.group(1)))
        j = i + m.end()
    while j < len(s) and s[j] == "[":
        k = skip_balanced(s, j + 1, "]")
        idx = s[j + 1:k].strip()
        m = re.match(r"_(\d+)$", idx)
        m2 = re.match(r"(-?\d+) of (\d+)$", idx)
        if m:
            p = Place(p.local, p.proj + (("index", int(m.group(1))),))
        elif m2:
            n = int(m2.group(1))
            p = Place(p.local, p.proj + (("constindex", abs(n), int(m2.group(2)), n < 0),))
        else:
            raise MirSyntax(f"unsupported index projection {idx!r}")
        j = k + 1
    return p, j


class Operand:
    __slots__ = ("kind", "place", "const")        # kind: copy | move | const

    def __init__(self, kind, place=None, const=None):
        self.kind, self.place, self.const = kind, place, const

    def __repr__(self):
        return f"{self.kind} {self.place if self.place is not None else self.const}"


def parse_operand(s):
    s = s.strip()
    if s.startswith("no_retag "):
        s = s[9:]
    if s.startswith("copy "):
        return Operand("copy", parse_place(s[5:]))
    if s.startswith("move "):
        return Operand("move", parse_place(s[5:]))
    if s.startswith("const "):
        return Operand("const", const=s[6:].strip())
    if re.match(r"[A-Za-z_<]", s) and " " not in s.split("<")[0]:
        return Operand("const", const="fn " + s)          # a function item / tuple-constructor used as a value
    raise MirSyntax(f"bad operand {s!r}")


# ------------------------------------------------------------------------------------------------ rvalues
class Rvalue:
    __slots__ = ("kind", "a")

    def __init__(self, kind, **a):
        self.kind, self.a = kind, a

    def __repr__(self):
        return f"{self.kind}{self.a}"


BINOPS = {"Add", "Sub", "Mul", "Div", "Rem", "BitXor", "BitAnd", "BitOr", "Shl", "Shr", "Eq", "Lt", "Le", "Ne", "Ge", "Gt", "Offset", "Cmp",
          "AddWithOverflow", "SubWithOverflow", "MulWithOverflow", "AddUnchecked", "SubUnchecked", "MulUnchecked", "ShlUnchecked",
          "ShrUnchecked"}
UNOPS = {"Not", "Neg", "PtrMetadata"}


def _try_cast(s):
    if not (s.endswith(")") and " as " in s) or s.startswith('const "'):
        return None
    depth, i = 0, len(s) - 1
    while i >= 0:
        if s[i] == ")":
            depth += 1
        elif s[i] == "(":
            depth -= 1
            if depth == 0:
                break
        i -= 1
    kind = s[i + 1:-1]
    head = s[:i].rstrip()
    k = head.find(" as ")
    if i > 0 and k > 0 and s[i - 1] == " " and re.match(r"(IntToInt|IntToFloat|FloatToInt|FloatToFloat|Transmute|Subtype|PtrToPtr|FnPtrToPtr|PointerCoercion|PointerExposeProvenance|PointerWithExposedProvenance)(\(.*\))?$", kind):
        try:
            return Rvalue("cast", op=parse_operand(head[:k]), ty=head[k + 4:], cast=kind)
        except MirSyntax:
            return None
    return None


def parse_rvalue(s):
    s = s.strip()
    if s.startswith("no_retag "):
        s = s[9:]
    c = _try_cast(s)
    if c is not None:
        return c
    for pre, mut in (("&raw mut ", True), ("&raw const ", False), ("&mut ", True), ("&", False)):
        if s.startswith(pre):
            rest = s[len(pre):]
            rest = re.sub(r"^(fake shallow |fake |two_phase )", "", rest)
            return Rvalue("ref", place=parse_place(rest), mut=mut, raw=pre.startswith("&raw"))
    if s.startswith(("copy ", "move ", "const ")):
        # possibly a cast: `<operand> as <type> (<kind>)`
        if s.endswith(")") and " as " in s and not s.startswith('const "'):
            # `<operand> as <type> (<CastKind(..)>)`: the cast kind is the last parenthesised group
            depth, i = 0, len(s) - 1
            while i >= 0:
                if s[i] == ")":
                    depth += 1
                elif s[i] == "(":
                    depth -= 1
                    if depth == 0:
                        break
                i -= 1
            kind = s[i + 1:-1]
            head = s[:i].rstrip()
            k = head.find(" as ")
            if i > 0 and k > 0 and re.match(r"[A-Z][A-Za-z]+(\(.*\))?$", kind):
                try:
                    return Rvalue("cast", op=parse_operand(head[:k]), ty=head[k + 4:], cast=kind)
                except MirSyntax:
                    pass
        return Rvalue("use", op=parse_operand(s))
    if s.startswith("discriminant("):
        return Rvalue("discriminant", place=parse_place(s[len("discriminant("):-1]))
    if s.startswith("deref_copy "):
        return Rvalue("use", op=Operand("copy", parse_place(s[len("deref_copy "):])))
    m = re.match(r"([A-Z][A-Za-z]+)\(", s)
    if m and s.endswith(")") and m.group(1) in BINOPS | UNOPS | {"Len", "PtrMetadata"}:
        args = split_top(s[m.end():-1])
        if m.group(1) in BINOPS and len(args) == 2:
            return Rvalue("binop", op=m.group(1), l=parse_operand(args[0]), r=parse_operand(args[1]))
        if m.group(1) in UNOPS and len(args) == 1:
            return Rvalue("unop", op=m.group(1), x=parse_operand(args[0]))
        if m.group(1) == "Len":
            return Rvalue("len", place=parse_place(args[0]))
    if s.startswith("("):
        k = skip_balanced(s, 1, ")")
        if k == len(s) - 1:
            return Rvalue("aggregate", ty="tuple", variant=None, fields=[(i, parse_operand(x)) for i, x in enumerate(split_top(s[1:k]))])
    if s.startswith("["):
        k = skip_balanced(s, 1, "]")
        if k == len(s) - 1:
            inner = s[1:k]
            semi = skip_balanced(inner, 0, ";")
            if semi < len(inner):
                return Rvalue("repeat", op=parse_operand(inner[:semi]), count=inner[semi + 1:].strip())
            return Rvalue("aggregate", ty="array", variant=None, fields=[(i, parse_operand(x)) for i, x in enumerate(split_top(inner))])
    # aggregates: Path, Path(ops), Path { f: op, .. }, {closure@..} { f: op }, {coroutine@..} { .. }
    if s.startswith("{"):
        k = skip_balanced(s, 1, "}")
        head = s[:k + 1]
        rest = s[k + 1:].strip()
        fields = []
        if rest.startswith("{") and rest.endswith("}"):
            fields = _named_fields(rest[1:-1])
        elif rest:
            raise MirSyntax(f"bad closure aggregate {s!r}")
        return Rvalue("aggregate", ty=head, variant=None, fields=fields)
    # path head ends at the first top-level '(' or ' {'
    j = 0
    while True:
        j = skip_balanced(s, j, "({")
        if j >= len(s):
            return Rvalue("aggregate", ty=s, variant="?", fields=[])          # unit variant / unit struct
        if s[j] == "(" and j > 0 and s[j - 1] not in " :":
            break
        if s[j] == "{" and j > 0 and s[j - 1] == " ":
            break
        # '{' or '(' that belongs to the path itself (e.g. `fn(bool) -> X {path}` or `<impl at ..>`), skip the group
        j = skip_balanced(s, j + 1, OPEN[s[j]]) + 1
    head = s[:j].strip()
    if s[j] == "(":
        if not s.endswith(")"):
            raise MirSyntax(f"bad aggregate {s!r}")
        return Rvalue("aggregate", ty=head, variant="?", fields=[(i, parse_operand(x)) for i, x in enumerate(split_top(s[j + 1:-1]))])
    if not s.endswith("}"):
        raise MirSyntax(f"bad aggregate {s!r}")
    return Rvalue("aggregate", ty=head, variant="?", fields=_named_fields(s[j + 1:-1]))


def _named_fields(body):
    out = []
    for part in split_top(body):
        c = part.index(":")
        out.append((part[:c].strip(), parse_operand(part[c + 1:])))
    return out


# ------------------------------------------------------------------------------------------------ functions
class Stmt:
    __slots__ = ("kind", "place", "rv", "n", "text")

    def __init__(self, kind, place=None, rv=None, n=None, text=""):
        self.kind, self.place, self.rv, self.n, self.text = kind, place, rv, n, text


class Term:
    __slots__ = ("kind", "a", "text")

    def __init__(self, kind, text="", **a):
        self.kind, self.a, self.text = kind, a, text


class Func:
    def __init__(self, name, params, ret, text):
        self.name = name
        self.params = params               # [(local, type)]
        self.ret = ret
        self.text = text
        self.locals = {}                   # local -> type
        self.blocks = None                 # parsed lazily

    def parse(self):
        if self.blocks is not None:
            return self
        blocks = {}
        for m in re.finditer(r"^    let (?:mut )?_(\d+): (.+);$", self.text, re.M):
            self.locals[int(m.group(1))] = m.group(2)
        for m in re.finditer(r"^ +let (?:mut )?_(\d+): (.+);$", self.text, re.M):
            self.locals.setdefault(int(m.group(1)), m.group(2))
        for loc, ty in self.params:
            self.locals[loc] = ty
        for m in re.finditer(r"^    bb(\d+)( \(cleanup\))?: \{\n(.*?)^    \}$", self.text, re.S | re.M):
            lines = [ln.strip() for ln in m.group(3).split("\n") if ln.strip()]
            stmts = [parse_stmt(ln) for ln in lines[:-1]]
            term = parse_term(lines[-1])
            blocks[int(m.group(1))] = ([s for s in stmts if s is not None], term, bool(m.group(2)))
        if 0 not in blocks:
            raise MirSyntax(f"function {self.name} has no bb0")
        self.blocks = blocks
        return self


IGNORED_STMT = ("StorageLive(", "StorageDead(", "nop", "Retag(", "FakeRead(", "PlaceMention(", "AscribeUserType(", "Coverage::",
                "ConstEvalCounter", "Deinit(", "BackwardIncompatibleDropHint(")


def parse_stmt(ln):
    if not ln.endswith(";"):
        raise MirSyntax(f"statement without ';': {ln!r}")
    s = ln[:-1]
    if s.startswith(IGNORED_STMT):
        return None
    if s.startswith("discriminant("):
        k = skip_balanced(s, len("discriminant("), ")")
        m = re.match(r"\s*=\s*(\d+)$", s[k + 1:])
        if not m:
            raise MirSyntax(f"bad SetDiscriminant {ln!r}")
        return Stmt("setdiscr", place=parse_place(s[len("discriminant("):k]), n=int(m.group(1)), text=ln)
    if s.startswith("assume("):
        return Stmt("assume", rv=parse_operand(s[len("assume("):-1]), text=ln)
    eq = skip_balanced(s, 0, "=")
    if eq >= len(s):
        raise MirSyntax(f"unknown statement {ln!r}")
    return Stmt("assign", place=parse_place(s[:eq]), rv=parse_rvalue(s[eq + 1:]), text=ln)


def _targets(s):
    """`[return: bb3, unwind: bb9]` / `[success: bb1, unwind continue]` / `[0: bb1, otherwise: bb2]` -> dict"""
    out = {}
    for part in split_top(s.strip()[1:-1]):
        m = re.match(r"(-?\w+): bb(\d+)$", part)
        if m:
            out[m.group(1)] = int(m.group(2))
    return out


def parse_term(ln):
    if not ln.endswith(";"):
        raise MirSyntax(f"terminator without ';': {ln!r}")
    s = ln[:-1]
    if s == "return":
        return Term("return", ln)
    if s in ("resume", "unreachable") or s.startswith(("terminate", "abort")):
        return Term(s.split("(")[0], ln)
    m = re.match(r"goto -> bb(\d+)$", s)
    if m:
        return Term("goto", ln, bb=int(m.group(1)))
    if s.startswith("switchInt("):
        k = skip_balanced(s, len("switchInt("), ")")
        arrow = s.index("->", k)
        return Term("switch", ln, op=parse_operand(s[len("switchInt("):k]), targets=_targets(s[arrow + 2:]))
    if s.startswith("drop("):
        k = skip_balanced(s, 5, ")")
        arrow = s.index("->", k)
        return Term("drop", ln, place=parse_place(s[5:k]), targets=_targets(s[arrow + 2:]))
    if s.startswith("assert("):
        k = skip_balanced(s, 7, ")")
        args = split_top(s[7:k])
        cond = args[0]
        neg = cond.startswith("!")
        arrow = s.index("->", k)
        return Term("assert", ln, cond=parse_operand(cond[1:] if neg else cond), expected=not neg, msg=args[1] if len(args) > 1 else "",
                    targets=_targets(s[arrow + 2:]))
    if s.startswith(("falseEdge", "falseUnwind", "yield", "coroutine_drop", "tailcall", "asm!")):
        raise MirSyntax(f"unsupported terminator {ln!r}")
    # call:  PLACE = CALLEE(ARGS) -> [return: bbN, unwind ...]   |   ... -> unwind continue  (diverging)
    eq = skip_balanced(s, 0, "=")
    if eq >= len(s):
        raise MirSyntax(f"unknown terminator {ln!r}")
    dest = parse_place(s[:eq])
    rest = s[eq + 1:].strip()
    arrow = skip_balanced(rest, 0, ["->"])
    call = rest[:arrow].strip()
    tail = rest[arrow + 2:].strip() if arrow < len(rest) else ""
    # callee = everything up to the last top-level '(' group
    if not call.endswith(")"):
        raise MirSyntax(f"bad call {ln!r}")
    # find the top-level '(' whose matching ')' is the last character
    i = 0
    found = -1
    while True:
        i = skip_balanced(call, i, "(")
        if i >= len(call):
            break
        k = skip_balanced(call, i + 1, ")")
        if k == len(call) - 1:
            found = i
            break
        i = k + 1
    i = found
    if i <= 0:
        raise MirSyntax(f"bad call {ln!r}")
    callee = call[:i].strip()
    args = [parse_operand(x) for x in split_top(call[i + 1:-1])]
    targets = _targets(tail) if tail.startswith("[") else {}
    return Term("call", ln, dest=dest, callee=callee, args=args, targets=targets)


HEADER = re.compile(r"^fn (.+?)\((.*)\) -> (.+) \{$")


def parse_dump(text):
    """Split a dump into Func objects keyed by the definition path (bodies parsed on demand). Also returns promoteds/consts."""
    funcs = {}
    consts = {}
    lines = text.split("\n")
    i = 0
    n = len(lines)
    while i < n:
        ln = lines[i]
        if ln.startswith(("fn ", "const ", "static ", "promoted")) and ln.endswith("{"):
            j = i + 1
            while j < n and lines[j] != "}":
                j += 1
            body = "\n".join(lines[i + 1:j])
            if ln.startswith("fn "):
                # name ends at the '(' that starts the parameter list: the first top-level '(' after `fn `
                s = ln[3:]
                k = 0
                while True:
                    k = skip_balanced(s, k, "(")
                    if k >= len(s):
                        break
                    if s[k - 1] not in " <:" and not s[:k].endswith("fn"):
                        break
                    k = skip_balanced(s, k + 1, ")") + 1
                if k < len(s):
                    name = s[:k]
                    pe = skip_balanced(s, k + 1, ")")
                    params = []
                    for p in split_top(s[k + 1:pe]):
                        m = re.match(r"_(\d+): (.+)$", p)
                        if m:
                            params.append((int(m.group(1)), m.group(2)))
                    ret = s[pe + 1:].strip()
                    ret = ret[2:].strip() if ret.startswith("->") else ret
                    ret = ret[:-1].strip() if ret.endswith("{") else ret
                    funcs[name] = Func(name, params, ret, body)
            elif ln.startswith("const "):
                s = ln[6:]
                k = 0
                while True:
                    k = skip_balanced(s, k, ":")
                    if k >= len(s) or (s[k + 1:k + 2] == " " and s[k - 1] != ":"):
                        break
                    k += 2 if s[k + 1:k + 2] == ":" else 1
                if k < len(s):
                    consts[s[:k]] = Func(s[:k], [], s[k + 2:].rsplit(" = {", 1)[0], body)
            i = j + 1
        elif ln.startswith("const ") and ln.endswith(";") and " = const " in ln:
            head, val = ln[6:-1].rsplit(" = const ", 1)
            k = 0
            while True:
                k = skip_balanced(head, k, ":")
                if k >= len(head) or (head[k + 1:k + 2] == " " and head[k - 1] != ":"):
                    break
                k += 2 if head[k + 1:k + 2] == ":" else 1
            if k < len(head):
                consts[head[:k]] = Func(head[:k], [], head[k + 2:], f"    bb0: {{\n        _0 = const {val};\n        return;\n    }}")
            i += 1
        else:
            i += 1
    return funcs, consts
