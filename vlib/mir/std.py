"""Contract models of the std / core / alloc functions that reval's MIR calls (E3).

Each model states the documented behaviour of the library function over the executor's value domain; every one that is used by a
run is listed in the evidence (`Program.stats['std_models']`) as part of the claim. Unknown callee -> NotImplemented -> Unsupported.
"""
import re

import z3

from .symex import (ACC, Agg, BoolV, Cell, FnItem, Fut, IntV, IterV, MapV, Obj, Opq, Panic, Ref, Str, SymVal, UNINIT, Unsupported, VecV,
                    copy_val, strip_generics, vec_at, vec_len, map_has, map_at, dbg_of, display_of, VAL)


def mkbox(v, name="box"):
    return Agg("Box", None, {0: Agg("Unique", None, {0: Agg("NonNull", None, {0: Ref(Cell(v, name=name), (), True)})})})


def unbox(ex, b):
    if isinstance(b, Agg) and b.ty == "Box":
        return b.fields[0].fields[0].fields[0]
    raise Unsupported(f"not a box: {b}")


def some(v):
    return Agg("Option", "Some", {0: v})


NONE = lambda: Agg("Option", "None")          # noqa: E731
ok = lambda v: Agg("Result", "Ok", {0: v})    # noqa: E731
err = lambda e: Agg("Result", "Err", {0: e})  # noqa: E731


def deref_all(ex, v):
    while isinstance(v, Ref):
        v = ex.read_ref(v)
    return v


def as_str(ex, v):
    v = deref_all(ex, v)
    if isinstance(v, Str):
        return v
    raise Unsupported(f"expected a string, got {v}")


def top_types(callee):
    """`<A as B<C>>::m` -> (A, B<C>, m)"""
    m = re.match(r"<(.+) as (.+)>::(\w+)(::<.*>)?$", callee)
    if not m:
        return None
    # split at the top-level " as "
    s = callee[1:]
    depth = 0
    i = 0
    while i < len(s):
        c = s[i]
        if c == "-" and s[i + 1:i + 2] == ">":
            i += 2
            continue
        if c in "<({[":
            depth += 1
        elif c in ">)}]":
            if depth == 0:
                break
            depth -= 1
        elif depth == 0 and s.startswith(" as ", i):
            a = s[:i]
            rest = s[i + 4:]
            # find the closing '>' of the qualified path
            d = 0
            j = 0
            while j < len(rest):
                ch = rest[j]
                if ch == "-" and rest[j + 1:j + 2] == ">":
                    j += 2
                    continue
                if ch in "<({[":
                    d += 1
                elif ch in ">)}]":
                    if d == 0:
                        break
                    d -= 1
                j += 1
            tr = rest[:j]
            mm = re.match(r">::(\w+)", rest[j:])
            return a, tr, mm.group(1) if mm else None
        i += 1
    return None


def generic_args(t):
    """`Result<A, B>` -> [A, B] (top level)"""
    i = t.find("<")
    if i < 0 or not t.endswith(">"):
        return []
    from .parse import split_top
    return split_top(t[i + 1:-1])


# ------------------------------------------------------------------------------------------------ maps
def map_lookup(ex, mref, key):
    """Lookup with forking. Returns ('hit', Ref-to-value) or ('miss', None)."""
    m = deref_all(ex, mref)
    if not isinstance(m, MapV):
        raise Unsupported(f"map operation on {m}")
    kt = key.t
    for li in range(len(m.layers) - 1, -1, -1):
        l = m.layers[li]
        if l[0] == "kv":
            lab = ex.choose([("hit", l[1].t == kt), ("miss", l[1].t != kt)], "map-key")
            if lab == "hit":
                if isinstance(mref, Ref):
                    return "hit", Ref(mref.cell, mref.path + (("kv", li),))
                return "hit", Ref(Cell(l[2], name="map-slot"))
        elif l[0] == "abs":
            kind, mid = l[1], l[2]
            has = ex.h.abs_map_has(ex, kind, mid, key)
            st = ex.__dict__.setdefault("abs_card", {}).setdefault((kind, str(mid)), {"keys": [], "size": None, "has": []})
            _card_key(ex, st, kind, mid, key)
            _card_facts(ex, st)
            lab = ex.choose([("hit", has), ("miss", z3.Not(has))], "map-abs")
            if lab == "hit":
                return "hit", Ref(Cell(ex.h.abs_map_at(ex, kind, mid, key), ro=True, name=f"{kind}-entry"))
            # fall through to older layers
        elif l[0] == "del":
            lab = ex.choose([("hit", l[1].t == kt), ("miss", l[1].t != kt)], "map-del")
            if lab == "hit":
                return "miss", None
    return "miss", None


def _card_key(ex, st, kind, mid, key):
    if not any(k.t.eq(key.t) for k in st["keys"]):
        st["keys"].append(key)
        st["has"].append(ex.h.abs_map_has(ex, kind, mid, key))


def _card_facts(ex, st):
    """Cardinality facts linking the uninterpreted size of an abstract map to the keys in play: a present key needs size >= 1, two
    distinct present keys size >= 2 (enough for the comparisons of small concrete tables against an arbitrary one)."""
    sz = st["size"]
    if sz is None:
        return
    ks, hs = st["keys"], st["has"]
    for i in range(len(ks)):
        ex.assume(z3.Implies(hs[i], sz >= 1))
        for j in range(i + 1, len(ks)):
            ex.assume(z3.Implies(z3.And(hs[i], hs[j], ks[i].t != ks[j].t), sz >= 2))


def map_insert(ex, mref, key, val):
    m = deref_all(ex, mref)
    if not isinstance(m, MapV):
        raise Unsupported(f"insert into {m}")
    if isinstance(mref, Ref) and mref.cell.ro:
        raise Panic(f"WRITE-TO-SHARED-STATE: BTreeMap::insert into read-only region {mref.cell.name}")
    m.layers.append(("kv", key, val))


# ------------------------------------------------------------------------------------------------ iterators
def iter_next(ex, it):
    """Advance an IterV; returns the item or None."""
    if it.kind == "slice":                    # yields &T
        v = deref_all(ex, it.src)
        if not isinstance(v, VecV) or v.items is None:
            raise Unsupported("iteration over an abstract sequence")
        if it.pos >= len(v.items):
            return None
        r = Ref(it.src.cell, it.src.path + (("i", it.pos),))
        it.pos += 1
        return r
    if it.kind == "vec_into":                 # yields T
        v = it.src
        if v.items is None:
            raise Unsupported("into_iter over an abstract Vec")
        if it.pos >= len(v.items):
            return None
        x = v.items[it.pos]
        it.pos += 1
        return x
    if it.kind == "map_iter":                 # yields (&K, &V) in key order
        m = deref_all(ex, it.src)
        if not isinstance(m, MapV) or any(l[0] != "kv" for l in m.layers) or not getattr(ex.h, "maps_sorted", False):
            raise Unsupported("iteration over a map that is not a harness-built sorted list of entries")
        if it.pos >= len(m.layers):
            return None
        l = m.layers[it.pos]
        kref = Ref(Cell(l[1], ro=True, name="map-key"))
        vref = Ref(it.src.cell, it.src.path + (("kv", it.pos),))
        it.pos += 1
        return Agg("tuple", None, {0: kref, 1: vref})
    if it.kind == "map_into":                 # yields (K, V)
        m = it.src
        if any(l[0] != "kv" for l in m.layers):
            raise Unsupported("into_iter over an abstract map")
        if it.pos >= len(m.layers):
            return None
        l = m.layers[it.pos]
        it.pos += 1
        return Agg("tuple", None, {0: l[1], 1: l[2]})
    if it.kind == "map":                      # Iterator::map adaptor
        x = iter_next(ex, it.src)
        if x is None:
            return None
        return ex.call_closure(it.extra, [x])
    if it.kind == "filter":
        while True:
            x = iter_next(ex, it.src)
            if x is None:
                return None
            r = ex.call_closure(it.extra, [Ref(Cell(x, name="filter-item"))])
            if ex.choose([(True, r.t), (False, z3.Not(r.t))], "iter-filter"):
                return x
    if it.kind == "flat_map":
        while True:
            inner = it.pos if isinstance(it.pos, IterV) else None
            if inner is not None:
                x = iter_next(ex, inner)
                if x is not None:
                    return x
                it.pos = 0
            y = iter_next(ex, it.src)
            if y is None:
                return None
            it.pos = into_iter(ex, ex.call_closure(it.extra, [y]) if it.extra is not None else y)
    if it.kind == "filter_map":
        while True:
            y = iter_next(ex, it.src)
            if y is None:
                return None
            r = ex.call_closure(it.extra, [y])
            if not (isinstance(r, Agg) and r.ty == "Option"):
                raise Unsupported(f"filter_map closure returned {r}")
            if r.variant == "Some":
                return r.fields[0]
    if it.kind == "enumerate":
        x = iter_next(ex, it.src)
        if x is None:
            return None
        it.pos += 1
        return Agg("tuple", None, {0: IntV(it.pos - 1, "usize"), 1: x})
    if it.kind == "cloned":
        x = iter_next(ex, it.src)
        if x is None:
            return None
        v = ex.read_ref(x) if isinstance(x, Ref) else x          # exactly one level: Iterator<Item = &T> -> T
        if isinstance(v, SymVal) or (isinstance(v, Agg) and v.ty == "Value"):
            return ex.call(None, "<value::Value as std::clone::Clone>::clone", [x])
        return copy_val(v)
    if it.kind == "take":
        if it.pos >= it.extra:
            return None
        it.pos += 1
        return iter_next(ex, it.src)
    if it.kind == "chain":
        x = iter_next(ex, it.src)
        return x if x is not None else iter_next(ex, it.extra)
    if it.kind == "list":
        if it.pos >= len(it.src):
            return None
        it.pos += 1
        return it.src[it.pos - 1]
    if it.kind == "once":
        if it.pos:
            return None
        it.pos = 1
        return it.src
    raise Unsupported(f"iterator kind {it.kind}")


def into_iter(ex, v):
    if isinstance(v, IterV):
        return v
    if isinstance(v, Ref):
        t = ex.read_ref(v)
        if isinstance(t, VecV):
            return IterV("slice", v)
        if isinstance(t, MapV):
            return IterV("map_iter", v)
        if isinstance(t, Agg) and t.ty == "array":
            return IterV("slice", Ref(Cell(VecV([t.fields[i] for i in sorted(t.fields)]), name="array")))
    if isinstance(v, VecV):
        return IterV("vec_into", v)
    if isinstance(v, MapV):
        return IterV("map_into", v)
    if isinstance(v, Agg) and v.ty == "array":
        return IterV("vec_into", VecV([v.fields[i] for i in sorted(v.fields)]))
    if isinstance(v, Agg) and v.ty == "Option":
        return IterV("vec_into", VecV([v.fields[0]] if v.variant == "Some" else []))
    if isinstance(v, Agg) and v.ty == "Result":
        return IterV("vec_into", VecV([v.fields[0]] if v.variant == "Ok" else []))
    raise Unsupported(f"into_iter on {v}")


def collect(ex, it, target):
    t = strip_generics(target).split("::")[-1]
    if t in ("BTreeMap", "HashMap"):
        src = it.src if it.kind == "map" else it
        if src.kind == "map_into" and isinstance(src.src, MapV) and any(l[0] == "abs" for l in src.src.layers) and src.pos == 0:
            # an arbitrary (uninterpreted) table cannot be enumerated; but if the mapping closure is the identity on a GENERIC entry
            # (fresh key, fresh value) it is the identity on every entry, and the collected map is the same table
            if it.kind == "map":
                k = Str(ex.fresh("generic.key", z3.StringSort()))
                v = SymVal(ex.fresh("generic.val", VAL))
                r = ex.call_closure(it.extra, [Agg("tuple", None, {0: k, 1: v})])
                same = (isinstance(r, Agg) and r.ty == "tuple" and isinstance(r.fields.get(0), Str) and r.fields[0].t.eq(k.t)
                        and isinstance(r.fields.get(1), SymVal) and r.fields[1].t.eq(v.t))
                if not same:
                    raise Unsupported("collect of an arbitrary table through a closure that is not the identity on a generic entry")
            ex.prog.stats.setdefault("std_models", set()).add("collect of an arbitrary map through an entry-wise identity closure = the same map")
            return MapV(list(src.src.layers), src.src.vkind)
        m = MapV([])
        while True:
            x = iter_next(ex, it)
            if x is None:
                return m
            if not (isinstance(x, Agg) and x.ty == "tuple"):
                raise Unsupported("collect into a map from non-pairs")
            k = as_str(ex, x.fields[0])
            # later entries win: an equal earlier key is shadowed by the lookup order (newest first)
            m.layers.append(("kv", k, x.fields[1]))
    if t == "Vec":
        out = []
        while True:
            x = iter_next(ex, it)
            if x is None:
                return VecV(out)
            out.append(x)
    if t == "Result":
        inner = generic_args(target)
        if not inner:
            raise Unsupported(f"collect target {target}")
        acc_t = strip_generics(inner[0]).split("::")[-1]
        vec, mp = [], MapV([])
        while True:
            x = iter_next(ex, it)
            if x is None:
                return ok(VecV(vec) if acc_t == "Vec" else mp)
            if not (isinstance(x, Agg) and x.ty == "Result"):
                raise Unsupported("collect::<Result<..>> from non-results")
            if x.variant == "Err":
                return err(x.fields[0])
            if acc_t == "Vec":
                vec.append(x.fields[0])
            elif acc_t in ("BTreeMap", "HashMap"):
                p = x.fields[0]
                mp.layers.append(("kv", as_str(ex, p.fields[0]), p.fields[1]))
            else:
                raise Unsupported(f"collect target {target}")
    raise Unsupported(f"collect target {target}")


# ------------------------------------------------------------------------------------------------ fmt
def fmt_render(ex, arg):
    kind, v = arg.variant, deref_all(ex, arg.fields[0])
    if kind == "display" and isinstance(v, Str):
        return v.t
    if kind in ("debug", "display"):
        try:
            return (dbg_of if kind == "debug" else display_of)(ex.to_val(v))
        except Unsupported:
            pass
    raise Unsupported(f"formatting ({kind}) of {v}")


def fmt_format(ex, args):
    if not (isinstance(args, Agg) and args.ty == "FmtArguments"):
        raise Unsupported("format of unknown Arguments")
    tpl, arr = args.fields[0], args.fields[1]
    items = [arr.fields[i] for i in sorted(arr.fields)] if isinstance(arr, Agg) else []
    pieces = []
    shape = []
    i = 0
    nxt = 0
    while i < len(tpl):
        b = tpl[i]
        if b == 0:
            break
        if b == 0xC0:
            if nxt >= len(items):
                raise Unsupported("format template refers to a missing argument")
            pieces.append(fmt_render(ex, items[nxt]))
            shape.append(("arg", items[nxt].variant))
            nxt += 1
            i += 1
        elif b < 0x80:
            lit = bytes(tpl[i + 1:i + 1 + b]).decode("utf-8")
            pieces.append(z3.StringVal(lit))
            shape.append(("lit", lit))
            i += 1 + b
        else:
            raise Unsupported(f"format template byte {b:#x} (non-default formatting spec)")
    ex.notes.append(("format", shape))
    hook = getattr(ex.h, "format_hook", None)
    if hook is not None:
        r = hook(ex, shape, pieces)
        if r is not None:
            return Str(r)
    if not pieces:
        return Str("")
    return Str(z3.Concat(*pieces) if len(pieces) > 1 else pieces[0])


# ------------------------------------------------------------------------------------------------ dispatcher
def call(ex, callee, args):
    c = callee
    base = strip_generics(c)
    last = base.split("::")[-1]
    tt = top_types(c)
    used = ex.prog.stats.setdefault("std_models", set())

    def model(name):
        used.add(name)

    # ---- panics
    if base.startswith(("core::panicking::", "std::rt::begin_panic", "std::panicking::")) or base.endswith("::unwrap_failed") or base.endswith("::expect_failed"):
        raise Panic(f"{base}")

    # ---- futures
    if tt and tt[1] == "std::future::IntoFuture" and tt[2] == "into_future":
        model("IntoFuture::into_future = identity")
        return args[0]
    if base == "std::pin::Pin::new_unchecked" or base == "std::pin::Pin::new":
        model("Pin::new_unchecked = wrap")
        return Agg("Pin", None, {0: args[0]})
    if base == "std::pin::Pin::as_mut":
        p = deref_all(ex, args[0])
        if isinstance(p, Fut):
            return Agg("Pin", None, {0: args[0]})      # an oracle future stands for the whole Pin<Box<dyn Future>>
        inner = p.fields[0]
        if isinstance(inner, Agg) and inner.ty == "Box":
            inner = unbox(ex, inner)
        return Agg("Pin", None, {0: inner})
    if base == "std::boxed::Box::pin":
        model("Box::pin = heap cell")
        return Agg("Pin", None, {0: mkbox(args[0], "boxed-future")})
    if base == "std::boxed::Box::new_uninit":
        model("Box::new_uninit / assume_init / slice::into_vec (the lowering of vec![..])")
        return mkbox(Agg("MaybeUninit", None, {1: Agg("ManuallyDrop", None, {0: Agg("MaybeDangling", None, {0: UNINIT})})}), "uninit-box")
    if base in ("std::boxed::Box::assume_init", "std::mem::MaybeUninit::assume_init", "std::boxed::Box::write"):
        if base.endswith("write"):
            ex.write_ref(unbox(ex, args[0]), args[1])
        return args[0]
    if re.match(r"(std|core|alloc)::slice::<impl \[.*\]>::into_vec", c) or base == "std::boxed::box_assume_init_into_vec_unsafe":
        arr = ex.read_ref(unbox(ex, args[0]))
        while isinstance(arr, Agg) and arr.ty in ("MaybeUninit", "ManuallyDrop", "MaybeDangling"):
            arr = arr.fields[1] if arr.ty == "MaybeUninit" else arr.fields[0]
        if isinstance(arr, Agg) and arr.ty == "array":
            return VecV([arr.fields[i] for i in sorted(arr.fields)])
        raise Unsupported(f"into_vec of {arr}")
    if base == "std::boxed::Box::new":
        model("Box::new = heap cell")
        return mkbox(args[0])
    if tt and tt[1] == "std::future::Future" and tt[2] == "poll":
        model("Future::poll: coroutine bodies run from their MIR; oracle futures through the harness")
        return poll(ex, tt[0], args[0], args[1])
    if base in ("std::future::poll_fn", "core::future::poll_fn"):
        model("future::poll_fn: polling calls the closure")
        return Agg("PollFn", None, {0: args[0]})
    if base.startswith("std::sync::Mutex::") or base.startswith("std::sync::PoisonError::") or base.startswith("std::sync::RwLock::"):
        model("sync::Mutex as a plain cell (one evaluation at a time: no contention is modelled)")
        if last == "new":
            return Agg("Mutex", None, {0: args[0]})
        if last in ("lock", "try_lock", "write", "read", "get_mut"):
            r = args[0]
            t = ex.read_ref(r)
            inner = Ref(r.cell, r.path + (("f", None, 0),), True) if isinstance(t, Agg) and t.ty == "Mutex" else r
            return inner if last == "get_mut" else ok(Agg("MutexGuard", None, {0: inner}))
        if last == "into_inner":
            v = args[0]
            return v.fields[0] if isinstance(v, Agg) and v.ty in ("Mutex", "MutexGuard") else v
        return NotImplemented
    if base in ("std::future::ready",):
        return Fut("ready", args[0])

    # ---- Try / FromResidual
    if tt and tt[1] == "std::ops::Try" and tt[2] == "branch":
        model("Try::branch on Result/Option")
        v = args[0]
        if isinstance(v, Agg) and v.ty == "Result":
            if v.variant == "Ok":
                return Agg("ControlFlow", "Continue", {0: v.fields[0]})
            return Agg("ControlFlow", "Break", {0: err(v.fields[0])})
        if isinstance(v, Agg) and v.ty == "Option":
            if v.variant == "Some":
                return Agg("ControlFlow", "Continue", {0: v.fields[0]})
            return Agg("ControlFlow", "Break", {0: NONE()})
        raise Unsupported(f"Try::branch on {v}")
    if tt and tt[1].startswith("std::ops::FromResidual") and tt[2] == "from_residual":
        model("FromResidual::from_residual = Err(From::from(e))")
        v = args[0]
        if isinstance(v, Agg) and v.ty == "Result" and v.variant == "Err":
            tgt = generic_args(tt[0])
            src = generic_args(generic_args(tt[1])[0]) if generic_args(tt[1]) else []
            e = v.fields[0]
            if len(tgt) == 2 and len(src) == 2 and tgt[1].strip() != src[1].strip():
                e = ex.call(None, f"<{tgt[1].strip()} as std::convert::From<{src[1].strip()}>>::from", [e])
            return err(e)
        if isinstance(v, Agg) and v.ty == "Option" and v.variant == "None":
            return NONE()
        raise Unsupported(f"from_residual on {v}")

    # ---- conversions
    if tt and tt[1].startswith("std::convert::Into<") and tt[2] == "into":
        model("Into::into = From::from of the target")
        tgt = tt[1][len("std::convert::Into<"):-1]
        if ex.prog._short(tgt) == ex.prog._short(tt[0]):
            return args[0]
        return ex.call(None, f"<{tgt} as std::convert::From<{tt[0]}>>::from", args)
    if tt and tt[1].startswith("std::convert::TryInto<") and tt[2] == "try_into":
        model("TryInto::try_into = TryFrom::try_from of the target")
        tgt = tt[1][len("std::convert::TryInto<"):-1]
        return ex.call(None, f"<{tgt} as std::convert::TryFrom<{tt[0]}>>::try_from", args)
    if tt and tt[1].startswith("std::convert::From<") and tt[2] == "from":
        src = tt[1][len("std::convert::From<"):-1]
        if ex.prog._short(src) == ex.prog._short(tt[0]):
            model("From<T> for T = identity")
            return args[0]
        if strip_generics(tt[0]).endswith("String") and isinstance(deref_all(ex, args[0]), Str):
            model("String::from(&str)")
            return deref_all(ex, args[0])
        return NotImplemented
    if tt and tt[1] == "std::convert::AsRef<str>" or base.endswith("String::as_str") or base.endswith("::as_str"):
        return as_str(ex, args[0])

    # ---- Option / Result combinators
    if base.startswith("std::option::Option::") or base.startswith("std::result::Result::"):
        r = option_result(ex, base, last, args, c)
        if r is not NotImplemented:
            model(f"{base.split('::')[2]}::{last}")
            return r

    # ---- clone / eq / deref on std types
    if tt and tt[1] == "std::clone::Clone" and tt[2] == "clone":
        v = deref_all(ex, args[0])
        if isinstance(v, (Str, IntV, BoolV, SymVal, Opq, VecV, MapV, Agg)):
            model("Clone::clone = structural copy")
            return copy_val(v)
        raise Unsupported(f"clone of {v}")
    if tt and tt[1].startswith("std::cmp::PartialEq") and tt[2] in ("eq", "ne"):
        a, b = deref_all(ex, args[0]), deref_all(ex, args[1])
        r = None
        if isinstance(a, Str) and isinstance(b, Str):
            r = a.t == b.t
        elif isinstance(a, IntV) and isinstance(b, IntV):
            r = ex.zi(a) == ex.zi(b)
        elif isinstance(a, BoolV) and isinstance(b, BoolV):
            r = a.t == b.t
        if r is not None:
            model("PartialEq on str / integers / bool")
            return BoolV(z3.simplify(r if tt[2] == "eq" else z3.Not(r)))
        return NotImplemented
    if tt and tt[1].startswith("std::ops::Index<std::ops::RangeFull>") and tt[2] == "index":
        v = deref_all(ex, args[0])
        if isinstance(v, Str):
            model("String[..] = the whole text")
            return v
        if isinstance(v, VecV):
            return args[0]
    if tt and tt[1] in ("std::ops::Deref", "std::ops::DerefMut") and tt[2] in ("deref", "deref_mut") and tt[0].startswith("std::pin::Pin<"):
        g = deref_all(ex, args[0])
        if isinstance(g, Agg) and g.ty == "Pin":
            model("Pin<&mut T>::deref(_mut) = the pointee")
            inner = g.fields[0]
            return unbox(ex, inner) if isinstance(inner, Agg) and inner.ty == "Box" else inner
    if base in ("std::pin::Pin::get_mut", "std::pin::Pin::get_unchecked_mut", "std::pin::Pin::get_ref", "std::pin::Pin::into_inner"):
        g = args[0]
        if isinstance(g, Agg) and g.ty == "Pin":
            return g.fields[0]
    if tt and tt[1] in ("std::ops::Deref", "std::ops::DerefMut") and tt[2] in ("deref", "deref_mut") and "MutexGuard" in tt[0]:
        g = deref_all(ex, args[0])
        if isinstance(g, Agg) and g.ty == "MutexGuard":
            return g.fields[0]
    if tt and tt[1] in ("std::ops::Deref", "std::ops::DerefMut") and tt[2] in ("deref", "deref_mut"):
        t0 = strip_generics(tt[0])
        if t0.endswith("::String"):
            model("String::deref -> str")
            return as_str(ex, args[0])
        if t0.endswith("::Vec"):
            model("Vec::deref -> slice (same storage)")
            return args[0]
        if t0.endswith("::Box"):
            return unbox(ex, deref_all(ex, args[0]))
        return NotImplemented
    if tt and tt[1] == "std::borrow::ToOwned" and tt[2] == "to_owned" or tt and tt[1] == "std::string::ToString" and tt[2] == "to_string":
        v = deref_all(ex, args[0])
        if isinstance(v, Str):
            model("str::to_owned / to_string = same text")
            return v
        return NotImplemented
    if re.match(r"core::bool::<impl bool>::(then_some|then)", c):
        model("bool::then_some / then")
        b = args[0]
        lab = ex.choose([(True, b.t), (False, z3.Not(b.t))], "bool-then")
        if not lab:
            return NONE()
        return some(args[1] if "then_some" in c else ex.call_closure(args[1], []))
    if base == "std::hint::must_use":
        return args[0]
    if tt and tt[1] == "std::default::Default" and tt[2] == "default":
        t0 = strip_generics(tt[0]).split("::")[-1]
        if t0 == "BTreeMap":
            return MapV([])
        if t0 == "Vec":
            return VecV([])
        if t0 == "String":
            return Str("")
        return NotImplemented
    if base in ("std::mem::drop", "core::mem::drop", "std::mem::forget"):
        return Agg("tuple")

    # ---- Vec / slices
    if base == "std::vec::Vec::new" or base == "std::vec::Vec::with_capacity":
        model("Vec::new")
        return VecV([])
    if base == "std::vec::Vec::push":
        model("Vec::push = append")
        if isinstance(args[0], Ref) and args[0].cell.ro:
            raise Panic(f"WRITE-TO-SHARED-STATE: Vec::push into read-only region {args[0].cell.name}")
        v = deref_all(ex, args[0])
        if not isinstance(v, VecV) or v.items is None:
            raise Unsupported("push on an abstract Vec")
        v.items.append(args[1])
        return Agg("tuple")
    if base == "std::vec::Vec::len" or re.match(r"core::slice::<impl \[.*\]>::len$", c):
        v = deref_all(ex, args[0])
        if isinstance(v, VecV):
            model("Vec::len")
            return IntV(len(v.items), "usize") if v.items is not None else IntV(vec_len(v.abs), "usize")
    if re.match(r"core::slice::<impl \[.*\]>::iter$", c) or base == "std::vec::Vec::iter":
        model("slice::iter")
        return IterV("slice", args[0])
    if re.match(r"core::slice::<impl \[.*\]>::get(::<usize>)?$", c):
        model("slice::get: Some(&v[i]) iff i < len")
        v = deref_all(ex, args[0])
        idx = args[1]
        if not isinstance(v, VecV) or not isinstance(idx, IntV):
            raise Unsupported("slice::get on unknown operands")
        it = ex.zi(idx)
        if v.items is not None:
            n = ex.concrete_int(idx)
            if n is not None:
                return some(Ref(args[0].cell, args[0].path + (("i", n),))) if n < len(v.items) else NONE()
            opts = [(i, it == i) for i in range(len(v.items))] + [("out", z3.Or(it < 0, it >= len(v.items)))]
            lab = ex.choose(opts, "slice-get")
            return NONE() if lab == "out" else some(Ref(args[0].cell, args[0].path + (("i", lab),)))
        ex.assume(vec_len(v.abs) >= 0)
        lab = ex.choose([("in", it < vec_len(v.abs)), ("out", it >= vec_len(v.abs))], "slice-get")
        if lab == "out":
            return NONE()
        return some(Ref(Cell(SymVal(vec_at(v.abs, it)), ro=True, name="vec-elem")))

    # ---- iterators
    if tt and tt[1] == "std::iter::IntoIterator" and tt[2] == "into_iter":
        model("IntoIterator::into_iter")
        return into_iter(ex, args[0])
    if tt and tt[1] == "std::iter::Iterator":
        meth = tt[2]
        it = deref_all(ex, args[0])
        if not isinstance(it, IterV):
            raise Unsupported(f"Iterator::{meth} on {it}")
        if meth == "next":
            model("Iterator::next")
            x = iter_next(ex, it)
            return NONE() if x is None else some(x)
        if meth == "map":
            model("Iterator::map (lazy adaptor)")
            return IterV("map", it, 0, args[1])
        if meth in ("any", "all"):
            model(f"Iterator::{meth}: sequential, stops at the first decisive element")
            while True:
                x = iter_next(ex, it)
                if x is None:
                    return BoolV(meth == "all")
                r = ex.call_closure(args[1], [x])
                lab = ex.choose([(True, r.t), (False, z3.Not(r.t))], f"iter-{meth}")
                if lab == (meth == "any"):
                    return BoolV(meth == "any")
        if meth == "collect":
            model("Iterator::collect: sequential; Result<_, E> stops at the first Err")
            m = re.search(r"::collect::<(.+)>$", c)
            if not m:
                raise Unsupported("collect without a turbofish target")
            return collect(ex, it, m.group(1))
        if meth == "position":
            model("Iterator::position: index of the first element satisfying the predicate")
            i = 0
            while True:
                x = iter_next(ex, it)
                if x is None:
                    return NONE()
                r = ex.call_closure(args[1], [x])
                if ex.choose([(True, r.t), (False, z3.Not(r.t))], "iter-position"):
                    return some(IntV(i, "usize"))
                i += 1
        if meth in ("filter", "flat_map", "filter_map", "flatten", "enumerate", "cloned", "copied", "take", "chain", "skip", "rev", "peekable", "fuse", "by_ref"):
            model(f"Iterator::{meth} (adaptor)")
            if meth == "filter":
                return IterV("filter", it, 0, args[1])
            if meth in ("flat_map", "filter_map"):
                return IterV(meth, it, 0, args[1])
            if meth == "flatten":
                return IterV("flat_map", it, 0, None)
            if meth == "enumerate":
                return IterV("enumerate", it, 0)
            if meth in ("cloned", "copied"):
                return IterV("cloned", it, 0)
            if meth == "take":
                n = ex.concrete_int(args[1])
                if n is None:
                    raise Unsupported("take with a symbolic count")
                return IterV("take", it, 0, n)
            if meth == "chain":
                return IterV("chain", it, 0, into_iter(ex, args[1]))
            if meth in ("fuse", "by_ref"):
                return it if meth == "fuse" else args[0]
            if meth in ("skip", "rev"):
                items = []
                while True:
                    x = iter_next(ex, it)
                    if x is None:
                        break
                    items.append(x)
                if meth == "rev":
                    items.reverse()
                else:
                    n = ex.concrete_int(args[1])
                    if n is None:
                        raise Unsupported("skip with a symbolic count")
                    items = items[n:]
                return IterV("list", items, 0)
            return NotImplemented
        if meth in ("try_fold", "try_for_each"):
            model(f"Iterator::{meth}: sequential, stops at the first Err / None")
            acc = args[1] if meth == "try_fold" else Agg("tuple")
            f = args[2] if meth == "try_fold" else args[1]
            good = None
            while True:
                x = iter_next(ex, it)
                if x is None:
                    if good is None:
                        m = re.search(r"::try_(?:fold|for_each)::<.*(std::result::Result|std::option::Option)<", c)
                        good = "Some" if m and m.group(1).endswith("Option") else "Ok"
                    return Agg("Option" if good == "Some" else "Result", good, {0: acc})
                r = ex.call_closure(f, [acc, x] if meth == "try_fold" else [x])
                if not (isinstance(r, Agg) and r.ty in ("Result", "Option")):
                    raise Unsupported(f"try_fold closure returned {r}")
                good = "Ok" if r.ty == "Result" else "Some"
                if r.variant != good:
                    return r
                acc = r.fields[0]
        if meth in ("count", "last", "for_each", "fold", "nth"):
            model(f"Iterator::{meth}: sequential")
            if meth == "count":
                n = 0
                while iter_next(ex, it) is not None:
                    n += 1
                return IntV(n, "usize")
            if meth == "last":
                last = None
                while True:
                    x = iter_next(ex, it)
                    if x is None:
                        return NONE() if last is None else some(last)
                    last = x
            if meth == "for_each":
                while True:
                    x = iter_next(ex, it)
                    if x is None:
                        return Agg("tuple")
                    ex.call_closure(args[1], [x])
            if meth == "fold":
                acc = args[1]
                while True:
                    x = iter_next(ex, it)
                    if x is None:
                        return acc
                    acc = ex.call_closure(args[2], [acc, x])
            if meth == "nth":
                n = ex.concrete_int(args[1])
                if n is None and it.kind == "vec_into" and it.src.items is None and it.pos == 0:
                    nt = ex.zi(args[1])
                    ex.assume(vec_len(it.src.abs) >= 0)
                    if ex.choose([("in", nt < vec_len(it.src.abs)), ("out", nt >= vec_len(it.src.abs))], "iter-nth") == "in":
                        return some(SymVal(vec_at(it.src.abs, nt)))
                    return NONE()
                if n is None:
                    raise Unsupported("nth with a symbolic index")
                x = None
                for _ in range(n + 1):
                    x = iter_next(ex, it)
                    if x is None:
                        return NONE()
                return some(x)
        if meth == "find":
            while True:
                x = iter_next(ex, it)
                if x is None:
                    return NONE()
                r = ex.call_closure(args[1], [Ref(Cell(x, name="find-item"))])
                if ex.choose([(True, r.t), (False, z3.Not(r.t))], "iter-find"):
                    return some(x)
        return NotImplemented

    # ---- BTreeMap
    if base.startswith(("std::collections::BTreeMap::", "std::collections::HashMap::")):
        if last in ("new", "with_capacity", "default"):
            model("BTreeMap::new")
            return MapV([])
        if last == "get_mut":
            model("BTreeMap::get_mut: exact key lookup, newest binding (a binding of the abstract base is materialised as a newer one)")
            key = as_str(ex, args[1])
            lab, r = map_lookup(ex, args[0], key)
            if lab != "hit":
                return NONE()
            if r.cell.ro and not (isinstance(args[0], Ref) and args[0].cell.ro):
                r = Ref(Cell(copy_val(ex.read_ref(r)), name="map-slot", cow=(args[0], key)), (), True)
            return some(r)
        if last == "get":
            model("BTreeMap::get: exact key lookup, newest binding")
            lab, r = map_lookup(ex, args[0], as_str(ex, args[1]))
            return some(r) if lab == "hit" else NONE()
        if last == "contains_key":
            model("BTreeMap::contains_key")
            lab, _ = map_lookup(ex, args[0], as_str(ex, args[1]))
            return BoolV(lab == "hit")
        if last == "insert":
            model("BTreeMap::insert: binds the key, shadowing an older binding (returned old value not inspected)")
            map_insert(ex, args[0], as_str(ex, args[1]), args[2])
            return Opq("insert-result", None)
        if last == "entry":
            model("BTreeMap::entry: Occupied iff the key is bound (newest binding), else Vacant")
            key = as_str(ex, args[1])
            lab, r = map_lookup(ex, args[0], key)
            h = Agg("EntryHandle", None, {0: args[0], 1: key, 2: r if lab == "hit" else Opq("no-slot", None)})
            return Agg("Entry", "Occupied" if lab == "hit" else "Vacant", {0: h})
        if last == "append":
            model("BTreeMap::append: every binding of `other` is moved into self, replacing equal keys; other is left empty")
            if isinstance(args[0], Ref) and args[0].cell.ro:
                raise Panic(f"WRITE-TO-SHARED-STATE: BTreeMap::append into read-only region {args[0].cell.name}")
            dst, src = deref_all(ex, args[0]), deref_all(ex, args[1])
            if not (isinstance(dst, MapV) and isinstance(src, MapV)):
                raise Unsupported("append on non-maps")
            dst.layers.extend(src.layers)
            src.layers = []
            return Agg("tuple")
        if last in ("len", "is_empty"):
            model("BTreeMap::len: size of the abstract base (uninterpreted, >= 0) + number of newer bindings whose key is new")
            m = deref_all(ex, args[0])
            if not isinstance(m, MapV):
                raise Unsupported("len of a non-map")
            total = z3.IntVal(0)
            for li, l in enumerate(m.layers):
                if l[0] == "abs":
                    sz = z3.Function("map_size_" + str(l[1]), z3.IntSort(), z3.IntSort())(l[2] if not isinstance(l[2], int) else z3.IntVal(l[2]))
                    ex.assume(sz >= 0)
                    st = ex.__dict__.setdefault("abs_card", {}).setdefault((l[1], str(l[2])), {"keys": [], "size": None, "has": []})
                    st["size"] = sz
                    for x in m.layers:
                        if x[0] == "kv":
                            _card_key(ex, st, l[1], l[2], x[1])
                    _card_facts(ex, st)
                    total = total + sz
                elif l[0] == "kv":
                    older = MapV(m.layers[:li], m.vkind)
                    lab, _ = map_lookup(ex, Ref(Cell(older, name="older-layers")), l[1])
                    if lab == "miss":
                        total = total + 1
                else:
                    raise Unsupported("len of a map with deletions")
            total = z3.simplify(total)
            if last == "is_empty":
                return BoolV(z3.simplify(total == 0))
            return IntV(total, "usize")
        if last == "extend":
            model("BTreeMap::extend: sequential insert")
            it = into_iter(ex, args[1])
            while True:
                x = iter_next(ex, it)
                if x is None:
                    return Agg("tuple")
                map_insert(ex, args[0], as_str(ex, x.fields[0]), x.fields[1])
        if last == "remove":
            model("BTreeMap::remove")
            lab, r = map_lookup(ex, args[0], as_str(ex, args[1]))
            m = deref_all(ex, args[0])
            if isinstance(args[0], Ref) and args[0].cell.ro:
                raise Panic(f"WRITE-TO-SHARED-STATE: BTreeMap::remove in read-only region {args[0].cell.name}")
            old = copy_val(ex.read_ref(r)) if lab == "hit" else None
            m.layers.append(("del", as_str(ex, args[1])))
            return some(old) if lab == "hit" else NONE()
    if tt and tt[1].startswith("std::iter::Extend<") and tt[2] == "extend":
        coll = deref_all(ex, args[0])
        it = into_iter(ex, args[1])
        model("Extend::extend: sequential insert / push")
        if isinstance(args[0], Ref) and args[0].cell.ro:
            raise Panic(f"WRITE-TO-SHARED-STATE: extend in read-only region {args[0].cell.name}")
        while True:
            x = iter_next(ex, it)
            if x is None:
                return Agg("tuple")
            if isinstance(coll, MapV):
                map_insert(ex, args[0], as_str(ex, x.fields[0]), x.fields[1])
            elif isinstance(coll, VecV) and coll.items is not None:
                coll.items.append(x)
            else:
                raise Unsupported(f"extend of {coll}")
    if base in ("std::mem::swap", "core::mem::swap"):
        model("mem::swap")
        a, b = ex.read_ref(args[0]), ex.read_ref(args[1])
        ex.write_ref(args[0], b)
        ex.write_ref(args[1], a)
        return Agg("tuple")
    if base in ("std::mem::replace", "core::mem::replace"):
        model("mem::replace")
        old = ex.read_ref(args[0])
        ex.write_ref(args[0], args[1])
        return old
    if base in ("std::mem::take", "core::mem::take"):
        model("mem::take")
        old = ex.read_ref(args[0])
        fresh = MapV([]) if isinstance(old, MapV) else VecV([]) if isinstance(old, VecV) else Str("") if isinstance(old, Str) else None
        if fresh is None:
            raise Unsupported(f"mem::take of {old}")
        ex.write_ref(args[0], fresh)
        return old
    if base in ("std::vec::Vec::is_empty",) or re.match(r"core::slice::<impl \[.*\]>::is_empty$", c):
        v = deref_all(ex, args[0])
        if isinstance(v, VecV):
            model("Vec::is_empty")
            return BoolV(len(v.items) == 0) if v.items is not None else BoolV(vec_len(v.abs) == 0)
    if base == "std::vec::Vec::retain_mut" or base == "std::vec::Vec::retain":
        model("Vec::retain(_mut): sequential, keeps the elements for which the closure returns true, in order")
        v = deref_all(ex, args[0])
        if not isinstance(v, VecV) or v.items is None:
            raise Unsupported("retain on an abstract Vec")
        keep = []
        for i in range(len(v.items)):
            item_ref = Ref(args[0].cell, args[0].path + (("i", i),), True)
            r = ex.call_closure(args[1], [item_ref])
            if ex.choose([(True, r.t), (False, z3.Not(r.t))], "retain"):
                keep.append(v.items[i])
        v.items[:] = keep
        return Agg("tuple")
    if base.startswith("std::vec::Vec::") and last in ("append", "swap_remove", "remove", "insert", "pop", "truncate", "clear", "drain", "retain"):
        if isinstance(args[0], Ref) and args[0].cell.ro:
            raise Panic(f"WRITE-TO-SHARED-STATE: Vec::{last} in read-only region {args[0].cell.name}")
        v = deref_all(ex, args[0])
        if isinstance(v, VecV) and v.items is None and last in ("truncate", "pop", "swap_remove", "remove"):
            # an arbitrary list: the result is described by a fresh list id related to the old one
            model(f"Vec::{last} on an arbitrary list (fresh id, elementwise relation to the old one)")
            old_id = v.abs
            ex.assume(vec_len(old_id) >= 0)
            j = z3.Int("j!vec")
            if last == "truncate":
                n = ex.zi(args[1])
                nid = ex.fresh("vec", z3.IntSort())
                ex.assume(vec_len(nid) == z3.If(n < vec_len(old_id), n, vec_len(old_id)))
                ex.assume(z3.ForAll([j], z3.Implies(z3.And(j >= 0, j < vec_len(nid)), vec_at(nid, j) == vec_at(old_id, j))))
                v.abs = nid
                return Agg("tuple")
            if last == "pop":
                if ex.choose([("some", vec_len(old_id) > 0), ("none", vec_len(old_id) <= 0)], "vec-pop") == "none":
                    return NONE()
                nid = ex.fresh("vec", z3.IntSort())
                ex.assume(vec_len(nid) == vec_len(old_id) - 1)
                ex.assume(z3.ForAll([j], z3.Implies(z3.And(j >= 0, j < vec_len(nid)), vec_at(nid, j) == vec_at(old_id, j))))
                v.abs = nid
                return some(SymVal(vec_at(old_id, vec_len(old_id) - 1)))
            n = ex.zi(args[1])
            if ex.choose([("in", z3.And(n >= 0, n < vec_len(old_id))), ("out", z3.Not(z3.And(n >= 0, n < vec_len(old_id))))], "vec-remove") == "out":
                raise Panic(f"Vec::{last} index out of bounds")
            nid = ex.fresh("vec", z3.IntSort())
            ex.assume(vec_len(nid) == vec_len(old_id) - 1)        # the remaining elements are left unspecified (sound: fewer facts)
            v.abs = nid
            return SymVal(vec_at(old_id, n))
        if not isinstance(v, VecV) or v.items is None:
            raise Unsupported(f"Vec::{last} on an abstract Vec")
        model(f"Vec::{last}")
        if last == "append":
            o = deref_all(ex, args[1])
            v.items.extend(o.items)
            o.items = []
            return Agg("tuple")
        if last == "pop":
            return some(v.items.pop()) if v.items else NONE()
        if last == "clear":
            v.items.clear()
            return Agg("tuple")
        if last in ("drain", "retain"):
            raise Unsupported(f"Vec::{last}")
        n = ex.concrete_int(args[1])
        if n is None:
            raise Unsupported(f"Vec::{last} with a symbolic index")
        if last == "truncate":
            del v.items[n:]
            return Agg("tuple")
        if last == "insert":
            if n > len(v.items):
                raise Panic("Vec::insert index out of bounds")
            v.items.insert(n, args[2])
            return Agg("tuple")
        if n >= len(v.items):
            raise Panic(f"Vec::{last} index out of bounds")
        if last == "remove":
            return v.items.pop(n)
        x = v.items[n]
        v.items[n] = v.items[-1]
        v.items.pop()
        return x
    if re.match(r"(std|alloc|core)::slice::<impl \[.*\]>::join(::<.*>)?$", c):
        v = deref_all(ex, args[0])
        sep = deref_all(ex, args[1])
        if isinstance(v, VecV) and v.items is not None and isinstance(sep, Str):
            model("[&str]::join(sep): concatenation with separators")
            parts = []
            for i, x in enumerate(v.items):
                if i:
                    parts.append(sep.t)
                parts.append(as_str(ex, x).t)
            return Str(z3.Concat(*parts) if len(parts) > 1 else (parts[0] if parts else z3.StringVal("")))
    if re.match(r"core::slice::<impl \[.*\]>::reverse$", c):
        v = deref_all(ex, args[0])
        if isinstance(v, VecV) and v.items is not None:
            model("slice::reverse")
            if isinstance(args[0], Ref) and args[0].cell.ro:
                raise Panic(f"WRITE-TO-SHARED-STATE: reverse in read-only region {args[0].cell.name}")
            v.items.reverse()
            return Agg("tuple")
    if re.match(r"core::slice::<impl \[.*\]>::(first|last)$", c):
        v = deref_all(ex, args[0])
        if isinstance(v, VecV) and v.items is not None:
            model("slice::first / last")
            if not v.items:
                return NONE()
            i = 0 if c.endswith("first") else len(v.items) - 1
            return some(Ref(args[0].cell, args[0].path + (("i", i),)))
    if base == "std::vec::Vec::extend":
        model("Vec::extend: sequential push")
        v = deref_all(ex, args[0])
        it = into_iter(ex, args[1])
        while True:
            x = iter_next(ex, it)
            if x is None:
                return Agg("tuple")
            v.items.append(x)
    if re.match(r"core::str::<impl str>::(contains|starts_with|ends_with|len|is_empty)", c):
        a = as_str(ex, args[0])
        meth2 = re.match(r"core::str::<impl str>::(\w+)", c).group(1)
        model(f"str::{meth2} (z3 string theory)")
        if meth2 == "len":
            return IntV(z3.Length(a.t), "usize")          # NOTE: characters, equals the byte length only for ASCII
        if meth2 == "is_empty":
            return BoolV(a.t == z3.StringVal(""))
        b = deref_all(ex, args[1])
        if isinstance(b, Str):
            return BoolV({"contains": z3.Contains, "starts_with": lambda x, y: z3.PrefixOf(y, x), "ends_with": lambda x, y: z3.SuffixOf(y, x)}[meth2](a.t, b.t))
        raise Unsupported(f"str::{meth2} with a non-string pattern")
    # ---- BTreeMap entry API
    if re.search(r"btree_map::(VacantEntry|OccupiedEntry|Entry)::", base) or re.search(r"btree::map::entry::(VacantEntry|OccupiedEntry|Entry)::", base):
        kind = re.search(r"(VacantEntry|OccupiedEntry|Entry)::(\w+)$", base)
        if kind:
            which, meth = kind.group(1), kind.group(2)
            e = deref_all(ex, args[0])
            variant = None
            if isinstance(e, Agg) and e.ty == "Entry":
                variant = e.variant
                e = e.fields[0]
            if not (isinstance(e, Agg) and e.ty == "EntryHandle"):
                raise Unsupported(f"entry method on {e}")
            mref, key, slot = e.fields[0], e.fields[1], e.fields[2]
            model(f"btree_map::{which}::{meth}")

            def do_insert(val):
                map_insert(ex, mref, key, val)
                m = deref_all(ex, mref)
                return Ref(mref.cell, mref.path + (("kv", len(m.layers) - 1),), True)
            if which == "VacantEntry" and meth == "insert":
                return do_insert(args[1])
            if which == "VacantEntry" and meth in ("key", "into_key"):
                return key
            def writable(slot):
                if isinstance(slot, Ref) and slot.cell.ro:
                    # a binding of the abstract base: copy on write
                    return Ref(Cell(copy_val(ex.read_ref(slot)), name="entry-slot", cow=(mref, key)), (), True)
                return slot
            if which == "OccupiedEntry" and meth in ("get", "get_mut", "into_mut"):
                return slot if meth == "get" else writable(slot)
            if which == "OccupiedEntry" and meth == "insert":
                old = copy_val(ex.read_ref(slot))
                do_insert(args[1])
                return old
            if which == "OccupiedEntry" and meth == "key":
                return key
            if which == "Entry" and meth in ("or_insert", "or_insert_with", "or_default", "or_insert_with_key"):
                if variant == "Occupied":
                    return writable(slot)
                if meth == "or_insert":
                    return do_insert(args[1])
                if meth == "or_insert_with":
                    return do_insert(ex.call_closure(args[1], []))
                if meth == "or_default":
                    g = generic_args(re.sub(r"::or_default$", "", c).replace("::<", "<", 1)) if "::<" in c else []
                    vt = strip_generics(g[-1]).split("::")[-1] if g else ""
                    dv = {"Vec": lambda: VecV([]), "BTreeMap": lambda: MapV([]), "String": lambda: Str("")}.get(vt)
                    if dv is None:
                        raise Unsupported(f"Entry::or_default for value type {vt!r}")
                    return do_insert(dv())
                raise Unsupported(f"Entry::{meth}")
        return NotImplemented
    # ---- strings
    if base in ("std::string::String::is_empty", "std::string::String::len", "std::string::String::as_str", "std::string::String::push_str", "std::string::String::push"):
        t = deref_all(ex, args[0])
        if isinstance(t, Str):
            model(f"String::{last} (z3 string theory; length in characters = bytes for ASCII)")
            if last == "is_empty":
                return BoolV(z3.simplify(t.t == z3.StringVal("")))
            if last == "len":
                return IntV(z3.Length(t.t), "usize")
            if last == "as_str":
                return t
            if last == "push_str":
                ex.write_ref(args[0], Str(z3.Concat(t.t, as_str(ex, args[1]).t)))
                return Agg("tuple")
    if base in ("std::string::String::new",):
        return Str("")
    if base.endswith("::to_string") or base.endswith("::to_owned"):
        v = deref_all(ex, args[0])
        if isinstance(v, Str):
            return v
    # ---- fmt
    if base.startswith("core::fmt::rt::Argument::new_"):
        model("fmt::Argument::new_display / new_debug")
        return Agg("FmtArg", last[4:], {0: args[0]})
    if base in ("std::fmt::Arguments::new", "core::fmt::Arguments::new"):
        model("fmt::Arguments::new (compact template)")
        tpl = deref_all(ex, args[0])
        arr = deref_all(ex, args[1])
        return Agg("FmtArguments", None, {0: tpl.fields[0] if isinstance(tpl, Agg) and tpl.ty == "bytes" else None, 1: arr})
    if base in ("std::fmt::format", "alloc::fmt::format"):
        model("fmt::format: literal pieces concatenated with Display of a str = the str and Debug of a Value = debug_of(value) (uninterpreted)")
        return fmt_format(ex, args[0])
    return NotImplemented


def option_result(ex, base, last, args, full):
    v = args[0]
    if isinstance(v, Ref) and last in ("get_or_insert_with", "get_or_insert", "insert", "take", "replace"):
        pass
    elif isinstance(v, Ref) and isinstance(ex.read_ref(v), Agg) and ex.read_ref(v).ty in ("Option", "Result") and last in ("is_none", "is_some", "is_ok", "is_err", "as_ref", "as_deref", "as_mut", "is_some_and"):
        v = ex.read_ref(v)
    if isinstance(v, Ref) and last in ("is_none", "is_some", "is_ok", "is_err", "as_ref", "as_deref", "as_mut", "is_some_and"):
        v = deref_all(ex, v)
    if isinstance(v, Ref) and last in ("get_or_insert_with", "get_or_insert", "insert", "take", "replace"):
        pass
    elif not isinstance(v, Agg) or v.ty not in ("Option", "Result"):
        raise Unsupported(f"{base} on {v}")
    if isinstance(v, Ref):
        is_opt, good = True, "Some"
    else:
        is_opt = v.ty == "Option"
        good = "Some" if is_opt else "Ok"
    if last in ("get_or_insert_with", "get_or_insert", "insert", "take", "replace") and isinstance(args[0], Ref):
        o = ex.read_ref(args[0])
        if isinstance(o, Agg) and o.ty == "Option":
            if last == "take":
                ex.write_ref(args[0], NONE())
                return o
            if last == "replace":
                ex.write_ref(args[0], some(args[1]))
                return o
            if last == "insert" or o.variant == "None":
                ex.write_ref(args[0], some(args[1] if last != "get_or_insert_with" else ex.call_closure(args[1], [])))
            return Ref(args[0].cell, args[0].path + (("f", "Some", 0),), True)
    if last == "ok_or_else":
        return ok(v.fields[0]) if v.variant == "Some" else err(ex.call_closure(args[1], []))
    if last == "ok_or":
        return ok(v.fields[0]) if v.variant == "Some" else err(args[1])
    if last in ("cloned", "copied"):
        if v.variant != good:
            return v
        inner = deref_all(ex, v.fields[0])
        return Agg(v.ty, good, {0: ex.call(None, "<value::Value as std::clone::Clone>::clone", [v.fields[0]]) if isinstance(inner, (SymVal,)) or (isinstance(inner, Agg) and inner.ty == "Value") else copy_val(inner)})
    if last == "unwrap_or":
        return v.fields[0] if v.variant == good else args[1]
    if last == "unwrap_or_else":
        return v.fields[0] if v.variant == good else ex.call_closure(args[1], [] if is_opt else [v.fields[0]])
    if last == "unwrap_or_default":
        if v.variant == good:
            return v.fields[0]
        raise Unsupported("unwrap_or_default")
    if last in ("unwrap", "expect"):
        if v.variant == good:
            return v.fields[0]
        raise Panic(f"{last} on {v.variant}")
    if last == "map":
        return Agg(v.ty, good, {0: ex.call_closure(args[1], [v.fields[0]])}) if v.variant == good else v
    if last == "map_err":
        return v if v.variant == "Ok" else err(ex.call_closure(args[1], [v.fields[0]]))
    if last == "and_then":
        return ex.call_closure(args[1], [v.fields[0]]) if v.variant == good else v
    if last == "ok":
        return some(v.fields[0]) if v.variant == "Ok" else NONE()
    if last == "err":
        return some(v.fields[0]) if v.variant == "Err" else NONE()
    if last in ("is_some", "is_ok"):
        return BoolV(v.variant == good)
    if last in ("is_none", "is_err"):
        return BoolV(v.variant != good)
    if last in ("as_ref", "as_deref", "as_mut"):
        return v
    if last == "is_some_and" or last == "is_ok_and":
        if v.variant != good:
            return BoolV(False)
        return ex.call_closure(args[1], [v.fields[0]])
    if last == "map_or":
        return args[1] if v.variant != good else ex.call_closure(args[2], [v.fields[0]])
    if last == "map_or_else":
        return ex.call_closure(args[1], [] if is_opt else [v.fields[0]]) if v.variant != good else ex.call_closure(args[2], [v.fields[0]])
    if last == "or":
        return v if v.variant == good else args[1]
    if last == "or_else":
        return v if v.variant == good else ex.call_closure(args[1], [] if is_opt else [v.fields[0]])
    if last == "filter" and is_opt:
        if v.variant != "Some":
            return v
        r = ex.call_closure(args[1], [Ref(Cell(v.fields[0], name="opt-item"))])
        return v if ex.choose([(True, r.t), (False, z3.Not(r.t))], "opt-filter") else NONE()
    return NotImplemented


def poll(ex, self_ty, pin, cx):
    if not (isinstance(pin, Agg) and pin.ty == "Pin"):
        raise Unsupported(f"poll on {pin}")
    target_ref = pin.fields[0]
    target = ex.read_ref(target_ref) if isinstance(target_ref, Ref) else target_ref
    if isinstance(target, Agg) and target.ty == "PollFn":
        return ex.call_closure(Ref(target_ref.cell, target_ref.path + (("f", None, 0),), True), [cx])
    if self_ty.startswith("{"):
        body = ex.prog.coroutine_body(self_ty)
        if body is None:
            raise Unsupported(f"no poll body for {self_ty}")
        return ex.call_func(body, [pin, cx])
    # Pin<Box<dyn Future>>: the pinned place holds either an oracle future or Pin { Box { coroutine } }
    if isinstance(target, Agg) and target.ty.startswith("{coroutine"):
        body = ex.prog.closure_body(target.ty)
        if body is None:
            raise Unsupported(f"no poll body for {target.ty}")
        return ex.call_func(body, [Agg("Pin", None, {0: target_ref}), cx])
    if isinstance(target, Fut):
        return ex.h.poll_oracle(ex, target)
    if isinstance(target, Agg) and target.ty == "Pin":
        inner = target.fields[0]
        if isinstance(inner, Fut):
            return ex.h.poll_oracle(ex, inner)
        r = unbox(ex, inner)
        co = ex.read_ref(r)
        if isinstance(co, Fut):
            return ex.h.poll_oracle(ex, co)
        if isinstance(co, Agg) and co.ty.startswith("{coroutine"):
            body = ex.prog.closure_body(co.ty)
            if body is None:
                raise Unsupported(f"no poll body for {co.ty}")
            return ex.call_func(body, [Agg("Pin", None, {0: r}), cx])
    raise Unsupported(f"poll of {target}")
