"""E3 harness support: MIR dump of the snapshot, oracle environment (sub-expression evaluation, user functions), spec checking."""
import glob
import os
import re
import time

import z3

from ..common import EncodingError, log, run_cmd
from . import std
from .symex import (ERR, Agg, BoolV, Cell, Explorer, Fut, IntV, MapV, Obj, Opq, Panic, PathLimit, Program, Ref, Str, SymVal, Unsupported, VAL,
                    VecV, copy_val, dbg_of, is_tag, map_at, map_has, val_eq, vec_at, vec_len)

NIGHTLY = os.environ.get("VERIF_NIGHTLY", "nightly")


def dump_mir(run):
    """MIR of the snapshot's library crate (optimized_mir as rustc prints it; coroutines after the state transform)."""
    t0 = time.time()
    tgt = os.path.join(run.scratch, "target-mir")
    rc, out = run_cmd(["cargo", f"+{NIGHTLY}", "rustc", "--offline", "--lib", "--target-dir", tgt, "--", "-Zunpretty=mir",
                       "-Ztrim-diagnostic-paths=no", "-C", "debug-assertions=off", "-C", "overflow-checks=on", "-Awarnings"],
                      cwd=run.snap, timeout=1200, stdout_path=os.path.join(run.scratch, "mir.txt"),
                      env={"CARGO_TERM_QUIET": "true"})
    if rc != 0:
        raise EncodingError(f"MIR dump failed (rc={rc}): {out[-800:]}")
    # cargo's own stderr lines are mixed in; the dump proper starts at the first `// WARNING` or `fn ` / `const ` / `static ` line
    sources = {}
    for p in glob.glob(os.path.join(run.snap, "src", "**", "*.rs"), recursive=True):
        rel = os.path.relpath(p, run.snap)
        with open(p, encoding="utf-8") as f:
            sources[rel] = f.read()
    prog = Program(out, sources)
    if len(prog.funcs) < 100:
        raise EncodingError(f"MIR dump has only {len(prog.funcs)} functions")
    log(f"[mir] {len(prog.funcs)} functions dumped in {time.time() - t0:.1f}s")
    run.extra.setdefault("mir", {})["functions_in_dump"] = len(prog.funcs)
    run.extra["mir"]["dump_s"] = round(time.time() - t0, 1)
    return prog


POLL_READY = lambda v: Agg("Poll", "Ready", {0: v})      # noqa: E731
POLL_PENDING = lambda: Agg("Poll", "Pending")            # noqa: E731


class Env:
    """Base harness: the oracle environment shared by all E3 drivers."""

    maps_sorted = True
    max_pending = 1

    def __init__(self):
        self.evals = {}        # per path: leaf key -> occurrences (reset by begin())

    def begin(self, ex):
        self.evals = {}
        self.calls = {}

    # ---- naming of plan variables (deterministic, shared by the spec)
    @staticmethod
    def leaf_ok(k, occ=0):
        return z3.Bool(f"leaf{k}.{occ}.ok")

    @staticmethod
    def leaf_val(k, occ=0):
        return z3.Const(f"leaf{k}.{occ}.val", VAL)

    @staticmethod
    def leaf_err(k, occ=0):
        return z3.Const(f"leaf{k}.{occ}.err", ERR)

    # ---- overrides
    def override(self, ex, callee, args):
        c = callee
        if re.search(r"::eval_rec(::<.*>)?$", c) and "closure" not in c:
            e = std.deref_all(ex, args[0])
            if isinstance(e, Obj) and e.kind == "expr":
                return Fut("eval", e.key)
            if isinstance(e, Agg):
                return NotImplemented          # a structured node: execute the real evaluator on it
            raise Unsupported(f"eval_rec on {e}")
        if c.startswith("<value::Value as std::clone::Clone>::clone"):
            ex.prog.stats.setdefault("std_models", set()).add("Value::clone = same value (derived Clone; contract)")
            v = std.deref_all(ex, args[0])
            return copy_val(v)
        if c.startswith("<value::Value as std::cmp::PartialEq>::eq") or c.startswith("<value::Value as std::cmp::PartialEq>::ne"):
            ex.prog.stats.setdefault("std_models", set()).add("Value == Value = structural equality, IEEE on floats (derived PartialEq; decided on the real code by C02's Kani cells)")
            a, b = ex.to_val(args[0]), ex.to_val(args[1])
            r = val_eq(a, b)
            return BoolV(z3.simplify(r if c.endswith("eq") else z3.Not(r)))
        m = re.match(r"<dyn function::UserFunction[^>]*as function::UserFunction>::(\w+)", c)
        if m:
            return self.userfn_method(ex, m.group(1), args)
        return NotImplemented

    def const_value(self, c):
        return None

    # ---- oracle futures
    def poll_oracle(self, ex, fut):
        if fut.done:
            raise Panic(f"oracle future {fut} polled after completion")
        if fut.kind == "eval":
            k = fut.data
            if fut.polls == 0:
                occ = self.evals.get(k, 0)
                self.evals[k] = occ + 1
                fut.data = (k, occ)
                ex.log.append(("eval", k))
            k, occ = fut.data
            return self._pending_or(ex, fut, f"leaf{k}.{occ}", lambda: self.leaf_result(ex, k, occ))
        if fut.kind == "userfn":
            return self.poll_userfn(ex, fut)
        if fut.kind == "ready":
            fut.done = True
            return POLL_READY(fut.data)
        raise Unsupported(f"oracle future kind {fut.kind}")

    def _pending_or(self, ex, fut, name, ready):
        j = fut.polls
        fut.polls += 1
        if j < self.max_pending:
            p = z3.Bool(f"{name}.pending{j}")
            if ex.choose([("ready", z3.Not(p)), ("pending", p)], "oracle-poll") == "pending":
                ex.log.append(("pending", name))
                return POLL_PENDING()
        fut.done = True
        return POLL_READY(ready())

    def leaf_result(self, ex, k, occ):
        okb = self.leaf_ok(k, occ)
        if ex.choose([("ok", okb), ("err", z3.Not(okb))], "leaf-result") == "ok":
            return std.ok(SymVal(self.leaf_val(k, occ)))
        return std.err(Opq("Error", self.leaf_err(k, occ)))

    def userfn_method(self, ex, meth, args):
        raise Unsupported(f"user function method {meth} without an environment")

    def poll_userfn(self, ex, fut):
        raise Unsupported("user function call without an environment")

    def abs_map_has(self, ex, kind, mid, key):
        if kind == "value":
            return map_has(mid, key.t)
        raise Unsupported(f"abstract map kind {kind}")

    def abs_map_at(self, ex, kind, mid, key):
        if kind == "value":
            return SymVal(map_at(mid, key.t))
        raise Unsupported(f"abstract map kind {kind}")


def leaf(k):
    return Obj("expr", k)


def drive(ex, self_ty, coroutine, max_polls=64):
    """Poll a coroutine value to completion (each Pending return is a suspension point of the real state machine)."""
    cell = Cell(coroutine, name="root-future")
    cx = Ref(Cell(Obj("task-context", 0), name="cx"), (), True)
    for _ in range(max_polls):
        r = std.poll(ex, self_ty, Agg("Pin", None, {0: Ref(cell, (), True)}), cx)
        if isinstance(r, Agg) and r.ty == "Poll":
            if r.variant == "Ready":
                return r.fields[0]
            ex.log.append(("suspend",))
            continue
        raise Unsupported(f"poll returned {r}")
    raise Unsupported("future did not complete within the poll bound")


def strip_schedule(log_):
    return [e for e in log_ if e[0] not in ("pending", "suspend")]


# ------------------------------------------------------------------------------------------------ result predicates
def res_is_ok_val(ex, res, term):
    if isinstance(res, Agg) and res.ty == "Result" and res.variant == "Ok":
        return ex.to_val(res.fields[0]) == term
    return z3.BoolVal(False)


def res_is_err_opaque(ex, res, term):
    if isinstance(res, Agg) and res.ty == "Result" and res.variant == "Err":
        e = res.fields[0]
        if isinstance(e, Opq) and e.sort == "Error":
            return e.t == term
    return z3.BoolVal(False)


def res_is_err_variant(ex, res, variant, payload=None):
    if isinstance(res, Agg) and res.ty == "Result" and res.variant == "Err":
        e = res.fields[0]
        if isinstance(e, Agg) and e.ty in ("Error", "error::Error") and e.variant == variant:
            if payload is None:
                return z3.BoolVal(True)
            p = e.fields.get(0)
            if isinstance(p, Str):
                return p.t == payload
    return z3.BoolVal(False)


def term_eq(a, b):
    """Equality of two log items as a z3 Bool (terms), or a Python bool (everything else)."""
    if isinstance(a, z3.ExprRef) and isinstance(b, z3.ExprRef):
        if a.sort() != b.sort():
            return False
        return True if a.eq(b) else a == b
    if isinstance(a, (list, tuple)) and isinstance(b, (list, tuple)):
        if len(a) != len(b):
            return False
        out = []
        for x, y in zip(a, b):
            r = term_eq(x, y)
            if r is False:
                return False
            if r is not True:
                out.append(r)
        return z3.And(out) if out else True
    if isinstance(a, z3.ExprRef) or isinstance(b, z3.ExprRef):
        try:
            return a == b
        except Exception:
            return False
    return a == b


class Case:
    """One row of a specification: under `guard`, the (schedule-free) log must equal `log` (items may contain z3 terms) and
    `result(ex, res)` (a z3 Bool) must hold; `post(ex)` optionally constrains the final state."""

    def __init__(self, name, guard, log, result, post=None):
        self.name, self.guard, self.log, self.result, self.post = name, guard, log, result, post

    def good(self, ex, status, res, plog):
        if status == "panic":
            return False, f"panic: {res}"
        conds = []
        if self.log is not None:
            r = term_eq(plog, self.log)
            if r is False:
                return False, f"evaluation log {show_log(plog)} != expected {show_log(self.log)}"
            if r is not True:
                conds.append(r)
        if self.result is not None:
            conds.append(self.result(ex, res))
        if self.post is not None:
            conds.append(self.post(ex))
        conds = [c for c in conds if c is not True]
        if any(c is False for c in conds):
            return False, f"result {short(res)} is not the expected one"
        return (z3.And(conds) if conds else True), f"result {short(res)} / log {show_log(plog)} violates the specification"


def show_log(l):
    return "[" + ", ".join("(" + " ".join(str(x) for x in e) + ")" for e in l) + "]"


def check_paths(run, prog, env, oid, body, cases, kind, meta=None, max_paths=3000, log_filter=strip_schedule, solver_timeout_ms=120000,
                mandatory_cases=None):
    """Explore every path of body(ex) -> result; on each path every spec case whose guard is consistent with the path condition must
    hold. Returns the obligation dict; counterexamples are in d['cex'] (the caller replays them natively before reporting)."""
    t0 = time.time()
    q0 = prog.stats["queries"]
    n_paths = 0
    covered = set()
    cex = []
    schedules = set()
    try:
        for ex, (status, res) in Explorer(prog, env, max_paths).paths(lambda ex: (env.begin(ex), body(ex))[1]):
            n_paths += 1
            s = z3.Solver()
            s.set("timeout", solver_timeout_ms)
            s.add(*ex.pc)
            plog = log_filter(ex.log)
            schedules.add(tuple(str(e) for e in ex.log if e[0] in ("pending",)))
            matched = False
            for case in cases:
                prog.stats["queries"] += 1
                r = s.check(case.guard)
                if r == z3.unknown:
                    raise Unsupported(f"solver unknown on guard of case {case.name}")
                if r != z3.sat:
                    continue
                matched = True
                covered.add(case.name)
                gm = s.model()
                n_pc = len(ex.pc)
                good, why = case.good(ex, status, res, plog)
                if len(ex.pc) > n_pc:
                    s.add(*ex.pc[n_pc:])      # definitions introduced while building the expectation (ids of concrete lists / maps)
                if good is True:
                    continue
                if good is False:
                    cex.append({"case": case.name, "why": why, "model": model_dict(gm), "log": show_log(plog), "result": short(res, 400),
                                "_model": gm, "_case": case})
                    continue
                prog.stats["queries"] += 1
                r2 = s.check(case.guard, z3.Not(good))
                if r2 == z3.unknown:
                    raise Unsupported(f"solver unknown on the assertion of case {case.name}")
                if r2 == z3.sat:
                    mm = s.model()
                    cex.append({"case": case.name, "why": why, "model": model_dict(mm), "log": show_log(plog), "result": short(res, 400),
                                "_model": mm, "_case": case})
            if not matched:
                raise Unsupported(f"path with log {show_log(plog)} matches no specification case (specification not exhaustive)")
    except (Unsupported, PathLimit) as e:
        d = run.obligation(oid, kind, "inconclusive", time.time() - t0, reason=str(e)[:400], paths=n_paths, **(meta or {}))
        return d
    dt = time.time() - t0
    run.solver_time_s += dt
    missing = [c.name for c in cases if c.name not in covered and (mandatory_cases is None or c.name in mandatory_cases)]
    d = run.obligation(oid, kind, "fail" if cex else "pass", dt, paths=n_paths, queries=prog.stats["queries"] - q0,
                       cases_covered=sorted(covered), schedules=len(schedules), nontrivial=not missing, **(meta or {}))
    if missing and not cex:
        d["verdict"] = "inconclusive"
        d["reason"] = f"vacuity: specification cases never reached: {missing}"
    d["cex"] = cex
    return d


def short(v, n=160):
    s = repr(v)
    return s if len(s) <= n else s[:n] + "..."


def model_dict(m):
    out = {}
    for d in m.decls():
        try:
            out[d.name()] = str(m[d])
        except Exception:
            pass
    return out
