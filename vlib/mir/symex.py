"""E3: a symbolic executor for rustc MIR (the dump of /repo's current tree), with z3 deciding every branch and every assertion.

* control flow is explored path by path (decision-prefix re-execution); every branch on a symbolic value is a solver query,
  infeasible sides are pruned, every feasible side is explored;
* data are concrete-structured (structs, enum variants, references, boxes) with symbolic leaves (z3 terms);
* a dynamically typed `Value` operand is one term of a z3 algebraic datatype (10 constructors);
* functions of the crate are executed from their MIR; std / dependency functions by the contract models in std.py;
  harness-designated callees (the recursive evaluator, user functions) are oracles that log and return planned results;
* anything not understood raises Unsupported -> the obligation is inconclusive (never pass, never violation).
"""
import re

import z3

from .parse import MirSyntax, Place, parse_dump  # noqa: F401


class Unsupported(Exception):
    pass


class Panic(Exception):
    pass


class PathLimit(Exception):
    pass


# ------------------------------------------------------------------------------------------------ sorts
def _mk_val():
    V = z3.Datatype("Val")
    V.declare("None_")
    V.declare("Bool", ("b", z3.BoolSort()))
    V.declare("Int", ("i", z3.IntSort()))
    V.declare("Float", ("f", z3.Float64()))
    V.declare("Decimal", ("d", z3.DeclareSort("Dec")))
    V.declare("String", ("s", z3.StringSort()))
    V.declare("DateTime", ("t", z3.DeclareSort("DateTime")))
    V.declare("Duration", ("u", z3.DeclareSort("Duration")))
    V.declare("Vec", ("v", z3.IntSort()))
    V.declare("Map", ("m", z3.IntSort()))
    return V.create()


VAL = _mk_val()
ERR = z3.DeclareSort("OpaqueError")
VTAGS = ["String", "Int", "Float", "Decimal", "Bool", "DateTime", "Duration", "Vec", "Map", "None"]     # overwritten from the source
CTOR = {"None": "None_"}
ACC = {"Bool": "b", "Int": "i", "Float": "f", "Decimal": "d", "String": "s", "DateTime": "t", "Duration": "u", "Vec": "v", "Map": "m"}

vec_len = z3.Function("vec_len", z3.IntSort(), z3.IntSort())
vec_at = z3.Function("vec_at", z3.IntSort(), z3.IntSort(), VAL)
map_has = z3.Function("map_has", z3.IntSort(), z3.StringSort(), z3.BoolSort())
map_at = z3.Function("map_at", z3.IntSort(), z3.StringSort(), VAL)
dbg_of = z3.Function("debug_of", VAL, z3.StringSort())
display_of = z3.Function("display_of", VAL, z3.StringSort())


def is_tag(term, tag):
    return getattr(VAL, "is_" + CTOR.get(tag, tag))(term)


def val_acc(term, tag):
    return getattr(VAL, ACC[tag])(term)


def mk_val(tag, payload=None):
    c = getattr(VAL, CTOR.get(tag, tag))
    return c if tag == "None" else c(payload)


def val_eq(a, b):
    """Contract of `Value == Value` (derived PartialEq; decided on the real code by the Kani cells of C02): structural, IEEE for floats."""
    return z3.If(z3.And(VAL.is_Float(a), VAL.is_Float(b)), z3.fpEQ(VAL.f(a), VAL.f(b)), a == b)


INT_RANGE = {}
for _b in (8, 16, 32, 64, 128):
    INT_RANGE[f"i{_b}"] = (-(1 << (_b - 1)), (1 << (_b - 1)) - 1)
    INT_RANGE[f"u{_b}"] = (0, (1 << _b) - 1)
INT_RANGE["isize"] = INT_RANGE["i64"]
INT_RANGE["usize"] = INT_RANGE["u64"]


# ------------------------------------------------------------------------------------------------ values
class Cell:
    __slots__ = ("v", "ro", "name", "cow")

    def __init__(self, v=None, ro=False, name="", cow=None):
        self.v, self.ro, self.name, self.cow = v, ro, name, cow


class Uninit:
    def __repr__(self):
        return "<uninit>"


UNINIT = Uninit()


class Agg:
    __slots__ = ("ty", "variant", "fields")

    def __init__(self, ty, variant=None, fields=None):
        self.ty, self.variant, self.fields = ty, variant, fields if fields is not None else {}

    def __repr__(self):
        return f"{self.ty}{'::' + str(self.variant) if self.variant is not None else ''}{self.fields if self.fields else ''}"


class Ref:
    __slots__ = ("cell", "path", "mut")

    def __init__(self, cell, path=(), mut=False):
        self.cell, self.path, self.mut = cell, tuple(path), mut

    def __repr__(self):
        return f"&{self.cell.name}{list(self.path) if self.path else ''}"


class SymVal:
    __slots__ = ("t",)

    def __init__(self, t):
        self.t = t

    def __repr__(self):
        return f"Val({self.t})"


class Opq:
    __slots__ = ("sort", "t")

    def __init__(self, sort, t):
        self.sort, self.t = sort, t

    def __repr__(self):
        return f"{self.sort}({self.t})"


class Str:
    __slots__ = ("t",)

    def __init__(self, t):
        self.t = z3.StringVal(t) if isinstance(t, str) else t

    def __repr__(self):
        return f"str({self.t})"


class IntV:
    __slots__ = ("t", "ty")

    def __init__(self, t, ty):
        self.t, self.ty = t, ty

    def __repr__(self):
        return f"{self.t}_{self.ty}"


class BoolV:
    __slots__ = ("t",)

    def __init__(self, t):
        self.t = z3.BoolVal(t) if isinstance(t, bool) else t

    def __repr__(self):
        return f"bool({self.t})"


class VecV:
    """Vec<T> / [T]: either a concrete list of element values or an abstract id (UFs vec_len / vec_at, elements are Values)."""
    __slots__ = ("items", "abs")

    def __init__(self, items=None, abs=None):
        self.items, self.abs = items, abs

    def __repr__(self):
        return f"vec{self.items if self.abs is None else '#' + str(self.abs)}"


class MapV:
    """BTreeMap<K, V>: layers oldest -> newest; ('abs', kind, id) | ('kv', key Str, value) ; lookups search newest first."""
    __slots__ = ("layers", "vkind")

    def __init__(self, layers=None, vkind="value"):
        self.layers = layers if layers is not None else []
        self.vkind = vkind

    def __repr__(self):
        return f"map{self.layers}"


class FnItem:
    __slots__ = ("path",)

    def __init__(self, path):
        self.path = path

    def __repr__(self):
        return f"fn {self.path}"


class Fut:
    """An oracle future (sub-expression evaluation, user-function call): polled through Executor.harness.poll_oracle."""
    __slots__ = ("kind", "data", "polls", "done")

    def __init__(self, kind, data):
        self.kind, self.data, self.polls, self.done = kind, data, 0, False

    def __repr__(self):
        return f"fut<{self.kind} {self.data}>"


class Obj:
    """An opaque environment object (an Expr leaf, a user function, a rule ...) identified by a key."""
    __slots__ = ("kind", "key", "attrs")

    def __init__(self, kind, key, **attrs):
        self.kind, self.key, self.attrs = kind, key, attrs

    def __repr__(self):
        return f"{self.kind}#{self.key}"


class IterV:
    __slots__ = ("kind", "src", "pos", "extra")

    def __init__(self, kind, src, pos=0, extra=None):
        self.kind, self.src, self.pos, self.extra = kind, src, pos, extra

    def __repr__(self):
        return f"iter<{self.kind}@{self.pos}>"


UNIT = Agg("tuple")


def copy_val(v):
    if isinstance(v, Agg):
        return Agg(v.ty, v.variant, {k: copy_val(x) for k, x in v.fields.items()})
    if isinstance(v, VecV):
        return VecV([copy_val(x) for x in v.items] if v.items is not None else None, v.abs)
    if isinstance(v, MapV):
        return MapV([tuple(copy_val(x) if i >= 2 and l[0] == "kv" else x for i, x in enumerate(l)) for l in v.layers], v.vkind)
    if isinstance(v, IterV):
        return IterV(v.kind, v.src, v.pos, v.extra)
    return v


# ------------------------------------------------------------------------------------------------ layouts from the source
STD_ENUMS = {
    "Option": ["None", "Some"], "Result": ["Ok", "Err"], "Poll": ["Ready", "Pending"], "ControlFlow": ["Continue", "Break"],
    "Ordering": ["Less", "Equal", "Greater"], "Entry": ["Vacant", "Occupied"],
}


def strip_generics(path):
    out = []
    depth = 0
    i = 0
    while i < len(path):
        c = path[i]
        if c == "-" and path[i + 1:i + 2] == ">":
            if depth == 0:
                out.append("->")
            i += 2
            continue
        if c == "<":
            depth += 1
        elif c == ">":
            depth -= 1
        elif depth == 0:
            out.append(c)
        i += 1
    s = "".join(out)
    while "::::" in s:
        s = s.replace("::::", "::")
    return s.rstrip(":")


class Layouts:
    def __init__(self, sources):
        self.enums = dict(STD_ENUMS)          # name -> [variant names]
        self.enum_fields = {}                 # (enum, variant) -> [field names] for struct-like variants
        self.structs = {}                     # name -> [field names]
        self.enum_tuple_types = {}            # (enum, variant) -> [field type texts]
        self.qual = {}                        # short name -> set of module-qualified names
        raw = []
        for rel, text in sources.items():
            mod = re.sub(r"^src/", "", rel)
            mod = re.sub(r"(/mod)?\.rs$", "", mod).replace("/", "::")
            mod = "" if mod in ("lib", "main") else mod
            for m in re.finditer(r"\b(?:enum|struct)\s+(\w+)", re.sub(r"//[^\n]*", "", text)):
                self.qual.setdefault(m.group(1), set()).add((mod + "::" if mod else "") + m.group(1))
            raw.append((mod, text))
        for mod, text in raw:
            text = re.sub(r"//[^\n]*", "", text)
            text = re.sub(r'"(?:\\.|[^"\\])*"', '""', text)
            q = lambda n, mod=mod: n if len(self.qual.get(n, ())) <= 1 else ((mod + "::" if mod else "") + n)   # noqa: E731
            for m in re.finditer(r"\benum\s+(\w+)(?:<[^>{]*>)?\s*\{", text):
                body = self._body(text, m.end())
                vs = []
                for part in self._split(body):
                    part = re.sub(r"#\[[^\]]*\]", "", part, flags=re.S).strip()
                    vm = re.match(r"(\w+)", part)
                    if not vm:
                        continue
                    vs.append(vm.group(1))
                    rest = part[vm.end():].strip()
                    if rest.startswith("("):
                        self.enum_tuple_types[(q(m.group(1)), vm.group(1))] = [re.sub(r"\s+", "", t) for t in self._split(rest[1:rest.rindex(")")]) if t.strip()]
                    if rest.startswith("{"):
                        self.enum_fields[(q(m.group(1)), vm.group(1))] = [re.match(r"(?:pub(?:\([^)]*\))?\s+)?(\w+)", re.sub(r"#\[[^\]]*\]", "", f, flags=re.S).strip()).group(1)
                                                                       for f in self._split(rest[1:rest.rindex("}")]) if f.strip()]
                self.enums[q(m.group(1))] = vs
            for m in re.finditer(r"\bstruct\s+(\w+)(?:<[^>{(]*>)?\s*\{", text):
                body = self._body(text, m.end())
                fs = []
                for part in self._split(body):
                    part = re.sub(r"#\[[^\]]*\]", "", part, flags=re.S).strip()
                    fm = re.match(r"(?:pub(?:\([^)]*\))?\s+)?(\w+)\s*:", part)
                    if fm:
                        fs.append(fm.group(1))
                self.structs[q(m.group(1))] = fs

    def canon(self, segs):
        """Path segments of a type (generics stripped) -> the key used for Agg.ty / layouts."""
        n = segs[-1]
        qs = self.qual.get(n, ())
        if len(qs) <= 1:
            return n
        full = "::".join(segs)
        for cand in qs:
            if full == cand or full.endswith("::" + cand):
                return cand
        return n

    @staticmethod
    def _body(text, i):
        depth = 1
        j = i
        while j < len(text) and depth:
            depth += {"{": 1, "}": -1}.get(text[j], 0)
            j += 1
        return text[i:j - 1]

    @staticmethod
    def _split(body):
        out, depth, cur = [], 0, []
        for c in body:
            if c in "({[<":
                depth += 1
            elif c in ")}]>":
                depth -= 1
            if c == "," and depth == 0:
                out.append("".join(cur))
                cur = []
            else:
                cur.append(c)
        if "".join(cur).strip():
            out.append("".join(cur))
        return out


# ------------------------------------------------------------------------------------------------ executor
class Frame:
    __slots__ = ("func", "cells", "bb")

    def __init__(self, func):
        self.func = func
        self.cells = {}
        self.bb = 0


class Executor:
    """One path. Create through Explorer.paths()."""

    def __init__(self, prog, harness, prefix, timeout_ms=90000):
        self.prog = prog
        self.h = harness
        self.prefix = list(prefix)
        self.trace = []
        self.pending = []             # alternative prefixes discovered on this path
        self.pc = []
        self.log = []
        self.solver = z3.Solver()
        self.solver.set("timeout", timeout_ms)
        self.steps = 0
        self.queries = 0
        self.fresh_n = 0
        self.depth = 0
        self.notes = []
        self.bind_stack = [{}]

    # -------------------------------------------------------------------- solver helpers
    def assume(self, cond):
        if isinstance(cond, bool):
            cond = z3.BoolVal(cond)
        self.pc.append(cond)
        self.solver.add(cond)

    def feasible(self, cond):
        c = z3.simplify(cond) if not isinstance(cond, bool) else z3.BoolVal(cond)
        if z3.is_true(c):
            return True
        if z3.is_false(c):
            return False
        self.queries += 1
        self.prog.stats["queries"] += 1
        r = self.solver.check(c)
        if r == z3.unknown:
            raise Unsupported(f"solver returned unknown on a branch condition ({self.solver.reason_unknown()})")
        return r == z3.sat

    def choose(self, options, what=""):
        """options: [(label, z3 Bool)]; mutually exclusive and exhaustive under the path condition. Returns the label taken."""
        i = len(self.trace)
        if i < len(self.prefix):
            k = self.prefix[i]
            self.trace.append(k)
            self.assume(options[k][1])
            return options[k][0]
        feas = [k for k, (_, c) in enumerate(options) if self.feasible(c)]
        if not feas:
            raise Unsupported(f"no feasible option at a branch ({what}): the path condition is inconsistent")
        for k in feas[1:]:
            self.pending.append(self.trace + [k])
        self.trace.append(feas[0])
        self.assume(options[feas[0]][1])
        return options[feas[0]][0]

    def fresh(self, name, sort):
        self.fresh_n += 1
        # names are deterministic along a decision prefix, so re-executions create identical terms
        return z3.Const(f"{name}!{self.fresh_n}", sort)

    def fresh_int(self, name, ty):
        t = self.fresh(name, z3.IntSort())
        lo, hi = INT_RANGE[ty]
        self.assume(z3.And(t >= lo, t <= hi))
        return IntV(t, ty)

    # -------------------------------------------------------------------- memory
    def read_ref(self, ref):
        v = ref.cell.v
        for key in ref.path:
            v = self.child(v, key)
        return v

    def child(self, v, key):
        kind = key[0]
        if kind == "f":
            _, dc, idx = key
            if isinstance(v, Agg):
                if v.ty.startswith("{coroutine"):
                    k = (dc, idx) if dc else idx
                    if k not in v.fields:
                        raise Unsupported(f"read of an unset coroutine slot {k}")
                    return v.fields[k]
                if dc is not None and v.variant != dc:
                    raise Unsupported(f"downcast to {dc} of a value that is {v.variant}")
                if idx not in v.fields:
                    raise Unsupported(f"read of missing field {idx} of {v}")
                return v.fields[idx]
            if isinstance(v, SymVal) and dc is not None and idx == 0 and dc in ACC:
                return self.val_payload(v.t, dc)
            raise Unsupported(f"field projection {key} on {type(v).__name__} {v}")
        if kind == "i":
            if isinstance(v, VecV) and v.items is not None and key[1] < len(v.items):
                return v.items[key[1]]
            raise Unsupported(f"index projection on {v}")
        if kind == "kv":          # value slot of the n-th layer of a map
            return v.layers[key[1]][2]
        raise Unsupported(f"projection {key}")

    def val_payload(self, term, tag):
        a = val_acc(term, tag)
        if tag == "Bool":
            return BoolV(a)
        if tag == "Int":
            return IntV(a, "i128")
        if tag == "String":
            return Str(a)
        if tag == "Vec":
            return VecV(abs=a)
        if tag == "Map":
            return MapV([("abs", "value", a)])
        return Opq(tag, a)

    def write_ref(self, ref, val):
        if ref.cell.ro:
            raise Panic(f"WRITE-TO-SHARED-STATE: store through a reference into read-only region {ref.cell.name}")
        if ref.cell.cow is not None:
            # a binding of an abstract map handed out mutably: the first store makes it a newer binding of that map
            mref, key = ref.cell.cow
            ref.cell.cow = None
            from .std import map_insert
            map_insert(self, mref, key, ref.cell.v)
            m = self.read_ref(mref)
            self.write_ref(Ref(mref.cell, mref.path + (("kv", len(m.layers) - 1),) + ref.path, True), val)
            return
        if not ref.path:
            ref.cell.v = val
            return
        v = ref.cell.v
        for key in ref.path[:-1]:
            v = self.child(v, key)
        key = ref.path[-1]
        if key[0] == "f" and isinstance(v, Agg):
            _, dc, idx = key
            if v.ty.startswith("{coroutine"):
                v.fields[(dc, idx) if dc else idx] = val
            else:
                if dc is not None and v.variant != dc:
                    v.variant = dc         # writing a field of a variant being initialised
                v.fields[idx] = val
            return
        if key[0] == "i" and isinstance(v, VecV) and v.items is not None:
            v.items[key[1]] = val
            return
        if key[0] == "kv" and isinstance(v, MapV):
            l = v.layers[key[1]]
            v.layers[key[1]] = (l[0], l[1], val)
            return
        raise Unsupported(f"store to projection {key} of {type(v).__name__}")

    def place_ref(self, fr, place, mut=False):
        if place.local not in fr.cells:
            fr.cells[place.local] = Cell(UNINIT, name=f"{fr.func.name.split('::')[-1]}._{place.local}")
        cell, path = fr.cells[place.local], ()
        proj = place.proj
        i = 0
        while i < len(proj):
            p = proj[i]
            if p[0] == "deref":
                v = self.read_ref(Ref(cell, path))
                if isinstance(v, Agg) and v.ty == "Box":
                    v = v.fields[0].fields[0].fields[0]
                if not isinstance(v, Ref):
                    raise Unsupported(f"deref of non-reference {v} in {place}")
                cell, path = v.cell, v.path
            elif p[0] == "downcast":
                if i + 1 < len(proj) and proj[i + 1][0] == "field":
                    path = path + (("f", self.variant_name(p[1]), proj[i + 1][1]),)
                    i += 1
                else:
                    raise Unsupported(f"bare downcast in {place}")
            elif p[0] == "field":
                path = path + (("f", None, p[1]),)
            elif p[0] == "constindex":
                if p[3]:
                    raise Unsupported("index from end")
                path = path + (("i", p[1]),)
            elif p[0] == "index":
                iv = self.read_ref(Ref(fr.cells[p[1]]))
                n = self.concrete_int(iv)
                if n is None:
                    raise Unsupported("symbolic array index")
                path = path + (("i", n),)
            i += 1
        return Ref(cell, path, mut)

    @staticmethod
    def variant_name(s):
        return s.strip()

    def concrete_int(self, iv):
        t = iv.t if isinstance(iv, IntV) else iv
        if isinstance(t, int):
            return t
        t = z3.simplify(t)
        if z3.is_int_value(t):
            return t.as_long()
        return None

    # -------------------------------------------------------------------- operands / rvalues
    def operand(self, fr, op):
        if op.kind in ("copy", "move"):
            v = self.read_ref(self.place_ref(fr, op.place))
            if v is UNINIT:
                raise Unsupported(f"read of uninitialised {op.place} in {fr.func.name}")
            return copy_val(v)
        return self.const(fr, op.const)

    def const(self, fr, c):
        c = c.strip()
        if c in ("true", "false"):
            return BoolV(c == "true")
        if c == "()":
            return Agg("tuple")
        m = re.match(r"(-?[\d_]+)_(i8|i16|i32|i64|i128|isize|u8|u16|u32|u64|u128|usize)$", c)
        if m:
            return IntV(int(m.group(1).replace("_", "")), m.group(2))
        if c.startswith('"'):
            return Str(_unescape_rust(c[1:c.rindex('"')]))
        if c.startswith('b"'):
            return Agg("bytes", None, {0: _unescape_bytes(c[2:c.rindex('"')])})
        if c.startswith("fn "):
            return FnItem(c[3:])
        m = re.match(r"'(.*)'$", c)
        if m:
            return IntV(ord(_unescape_rust(m.group(1))), "u32")
        m = re.search(r"::promoted\[(\d+)\]$", c)
        if m:
            return self.eval_promoted(c)
        if c.startswith("ZeroSized: ") or c.startswith("{"):
            t = c.split(": ", 1)[1] if c.startswith("ZeroSized: ") else c
            return FnItem(t)
        if re.match(r"[A-Za-z_<]", c):
            f = self.prog.consts.get(c)
            if f is not None:
                fr2 = Frame(f.parse())
                self.run_frame(fr2)
                return fr2.cells[0].v
            agg = self.const_aggregate(fr, c)
            if agg is not None:
                return agg
            # an associated const or a fn item used as a value
            known = self.h.const_value(c) if hasattr(self.h, "const_value") else None
            if known is not None:
                return known
            return FnItem(c)
        raise Unsupported(f"constant {c!r}")

    def const_aggregate(self, fr, c):
        """A constant printed as a value expression: `Path::Variant(consts..)` or a unit variant."""
        from .parse import skip_balanced, split_top
        j = 0
        while True:
            j = skip_balanced(c, j, "(")
            if j >= len(c):
                ev = self.enum_of(c)
                return self.mk_enum(ev[0], ev[1]) if ev else None
            if c[j - 1] not in " :<" and c.endswith(")") and skip_balanced(c, j + 1, ")") == len(c) - 1:
                break
            j = skip_balanced(c, j + 1, ")") + 1
        ev = self.enum_of(c[:j])
        if not ev:
            return None
        fields = {}
        for i, part in enumerate(split_top(c[j + 1:-1])):
            part = part[6:] if part.startswith("const ") else part
            fields[i] = self.const(fr, part)
        return self.mk_enum(ev[0], ev[1], fields)

    def eval_promoted(self, c):
        f = self.prog.find_const(c)
        if f is None:
            raise Unsupported(f"promoted constant {c} not found in the dump")
        fr = Frame(f.parse())
        self.run_frame(fr)
        return fr.cells[0].v

    def rvalue(self, fr, rv):
        k = rv.kind
        a = rv.a
        if k == "use":
            return self.operand(fr, a["op"])
        if k == "ref":
            return self.place_ref(fr, a["place"], a["mut"])
        if k == "discriminant":
            v = self.read_ref(self.place_ref(fr, a["place"]))
            return self.discriminant(v)
        if k == "aggregate":
            return self.aggregate(fr, a)
        if k == "cast":
            return self.cast(self.operand(fr, a["op"]), a["ty"], a["cast"])
        if k == "binop":
            return self.binop(a["op"], self.operand(fr, a["l"]), self.operand(fr, a["r"]))
        if k == "unop":
            x = self.operand(fr, a["x"])
            if a["op"] == "Not" and isinstance(x, BoolV):
                return BoolV(z3.Not(x.t))
            if a["op"] == "Neg" and isinstance(x, IntV):
                return self.wrap(-self.zi(x), x.ty)
            if a["op"] == "PtrMetadata":
                t = x
                while isinstance(t, Ref):
                    t = self.read_ref(t)
                if isinstance(t, VecV):
                    return IntV(len(t.items), "usize") if t.items is not None else IntV(vec_len(t.abs), "usize")
                if isinstance(t, Str):
                    return IntV(z3.Length(t.t), "usize")
            raise Unsupported(f"unary {a['op']} on {x}")
        if k == "len":
            v = self.read_ref(self.place_ref(fr, a["place"]))
            if isinstance(v, VecV) and v.items is not None:
                return IntV(len(v.items), "usize")
            if isinstance(v, Agg) and v.ty == "array":
                return IntV(len(v.fields), "usize")
            raise Unsupported("Len of abstract sequence")
        raise Unsupported(f"rvalue kind {k}")

    @staticmethod
    def zi(x):
        return x.t if not isinstance(x.t, int) else z3.IntVal(x.t)

    def wrap(self, t, ty):
        if ty not in INT_RANGE:
            raise Unsupported(f"integer type {ty}")
        lo, hi = INT_RANGE[ty]
        ts = z3.simplify(t) if not isinstance(t, int) else z3.IntVal(t)
        if z3.is_int_value(ts):
            n = ts.as_long()
            span = hi - lo + 1
            return IntV(((n - lo) % span) + lo, ty)
        span = hi - lo + 1
        return IntV(z3.If(z3.And(ts >= lo, ts <= hi), ts, ((ts - lo) % span) + lo), ty)

    def binop(self, op, l, r):
        if isinstance(l, BoolV) and isinstance(r, BoolV):
            f = {"Eq": lambda a, b: a == b, "Ne": lambda a, b: a != b, "BitAnd": z3.And, "BitOr": z3.Or, "BitXor": z3.Xor}.get(op)
            if f:
                return BoolV(f(l.t, r.t))
        if isinstance(l, IntV) and isinstance(r, IntV):
            a, b = self.zi(l), self.zi(r)
            cmpf = {"Eq": lambda: a == b, "Ne": lambda: a != b, "Lt": lambda: a < b, "Le": lambda: a <= b, "Gt": lambda: a > b, "Ge": lambda: a >= b}
            if op in cmpf:
                return BoolV(z3.simplify(cmpf[op]()))
            ar = {"Add": lambda: a + b, "Sub": lambda: a - b, "Mul": lambda: a * b}
            base = op.replace("WithOverflow", "").replace("Unchecked", "")
            if base in ar:
                exact = ar[base]()
                if op.endswith("WithOverflow"):
                    lo, hi = INT_RANGE[l.ty]
                    return Agg("tuple", None, {0: self.wrap(exact, l.ty), 1: BoolV(z3.simplify(z3.Or(exact < lo, exact > hi)))})
                return self.wrap(exact, l.ty)
        raise Unsupported(f"binary {op} on {l}, {r}")

    def cast(self, v, ty, kind):
        if kind == "Transmute":
            # NonNull<T> / Unique<T> -> *const T : unwrap single-field wrappers around a reference
            while isinstance(v, Agg) and len(v.fields) == 1 and 0 in v.fields:
                v = v.fields[0]
            return v
        if kind.startswith("PointerCoercion") or kind in ("PtrToPtr", "FnPtrToPtr", "Subtype"):
            return v
        if kind == "IntToInt":
            t = ty.strip()
            if isinstance(v, BoolV):
                return IntV(z3.If(v.t, 1, 0), t)
            if isinstance(v, IntV):
                return self.wrap(self.zi(v), t)
        raise Unsupported(f"cast {kind} of {v} to {ty}")

    def enum_of(self, path):
        """`a::b::Enum::<T>::Variant` -> (Enum, Variant) if known, else None."""
        segs = [s for s in strip_generics(path).split("::") if s]
        if len(segs) >= 2:
            en = self.prog.layouts.canon(segs[:-1])
            if en in self.prog.layouts.enums and segs[-1] in self.prog.layouts.enums[en]:
                return en, segs[-1]
        return None

    def aggregate(self, fr, a):
        ty = a["ty"]
        fields = a["fields"]
        vals = [(k, self.operand(fr, op)) for k, op in fields]
        if ty in ("tuple", "array"):
            return Agg(ty, None, {i: v for i, (_, v) in enumerate(vals)})
        if ty.startswith("{"):
            return Agg(ty, 0 if ty.startswith("{coroutine") else None, {i: v for i, (_, v) in enumerate(vals)})
        ev = self.enum_of(ty)
        if ev:
            en, vn = ev
            names = self.prog.layouts.enum_fields.get((en, vn))
            return self.mk_enum(en, vn, self._order(vals, names))
        sname = self.prog.layouts.canon([s for s in strip_generics(ty).split("::") if s])
        return Agg(sname, None, self._order(vals, self.prog.layouts.structs.get(sname)))

    @staticmethod
    def _order(vals, names):
        out = {}
        for i, (k, v) in enumerate(vals):
            if isinstance(k, str) and names and k in names:
                out[names.index(k)] = v
            else:
                out[i] = v
        return out

    def mk_enum(self, en, vn, fields=None):
        return Agg(en, vn, fields or {})

    def discriminant(self, v):
        if isinstance(v, Agg):
            if v.ty.startswith("{coroutine"):
                return IntV(v.variant, "u32")
            vs = self.prog.layouts.enums.get(v.ty)
            if vs is None or v.variant not in vs:
                raise Unsupported(f"discriminant of {v}")
            return IntV(vs.index(v.variant), "isize")
        if isinstance(v, SymVal):
            t = z3.IntVal(len(VTAGS) - 1)
            expr = None
            for i, tag in reversed(list(enumerate(VTAGS))):
                expr = z3.IntVal(i) if expr is None else z3.If(is_tag(v.t, tag), i, expr)
            return IntV(expr, "isize")
        if isinstance(v, Obj) and v.kind == "expr" and isinstance(v.key, int):
            # an opaque sub-expression has SOME node kind: an unconstrained symbolic discriminant (code that branches on the kind of an
            # operand is explored for every kind; projecting into the operand stays unsupported)
            en = self.prog.layouts.canon(["expr", "Expr"])
            n = len(self.prog.layouts.enums.get(en, []))
            if n:
                t = z3.Int(f"leaf{v.key}.kind")
                self.assume(z3.And(t >= 0, t < n))
                return IntV(t, "isize")
        raise Unsupported(f"discriminant of {type(v).__name__} {v}")

    def set_discriminant(self, ref, n):
        v = self.read_ref(ref)
        if isinstance(v, Agg) and v.ty.startswith("{coroutine"):
            v.variant = n
            return
        if isinstance(v, Agg) and v.ty in self.prog.layouts.enums:
            v.variant = self.prog.layouts.enums[v.ty][n]
            return
        raise Unsupported(f"SetDiscriminant on {v}")

    # -------------------------------------------------------------------- control
    def run_frame(self, fr):
        """Run fr until it returns; the return value is in fr.cells[0]."""
        self.depth += 1
        if self.depth > 60:
            raise Unsupported("call depth limit")
        f = fr.func
        while True:
            self.steps += 1
            if self.steps > self.prog.max_steps:
                raise PathLimit(f"step limit on one path in {f.name}")
            stmts, term, _ = f.blocks[fr.bb]
            for st in stmts:
                if st.kind == "assign":
                    val = self.rvalue(fr, st.rv)
                    self.write_ref(self.place_ref(fr, st.place, True), val)
                elif st.kind == "setdiscr":
                    self.set_discriminant(self.place_ref(fr, st.place, True), st.n)
                elif st.kind == "assume":
                    pass
            k = term.kind
            a = term.a
            if k == "goto":
                fr.bb = a["bb"]
            elif k == "return":
                self.depth -= 1
                return
            elif k == "switch":
                fr.bb = self.switch(fr, a)
            elif k == "drop":
                fr.bb = a["targets"]["return"]
            elif k == "assert":
                c = self.operand(fr, a["cond"])
                if not isinstance(c, BoolV):
                    raise Unsupported("assert on non-bool")
                want = c.t if a["expected"] else z3.Not(c.t)
                lab = self.choose([("ok", want), ("fail", z3.Not(want))], "assert")
                if lab == "fail":
                    raise Panic(f"assertion failed in {f.name}: {a['msg']}")
                fr.bb = a["targets"]["success"]
            elif k == "call":
                ret = self.call(fr, a["callee"], [self.operand(fr, x) for x in a["args"]])
                if "return" not in a["targets"]:
                    raise Panic(f"diverging call {a['callee']} returned")
                self.write_ref(self.place_ref(fr, a["dest"], True), ret)
                fr.bb = a["targets"]["return"]
            elif k == "unreachable":
                raise Unsupported(f"reached `unreachable` in {f.name} bb{fr.bb}")
            elif k == "resume":
                raise Panic("unwinding resumed")
            else:
                raise Unsupported(f"terminator {k}")

    def switch(self, fr, a):
        v = self.operand(fr, a["op"])
        targets = a["targets"]
        if isinstance(v, BoolV):
            t = z3.simplify(v.t)
            opts = []
            if "0" in targets:
                opts.append((targets["0"], z3.Not(t)))
            others = [k for k in targets if k not in ("0", "otherwise")]
            if others:
                opts.append((targets[others[0]], t))
            elif "otherwise" in targets:
                opts.append((targets["otherwise"], t if "0" in targets else z3.BoolVal(True)))
            return self.choose(opts, "switch-bool")
        if isinstance(v, IntV):
            n = self.concrete_int(v)
            if n is not None:
                return targets.get(str(n), targets.get("otherwise"))
            t = self.zi(v)
            opts = []
            vals = []
            for k, bb in targets.items():
                if k == "otherwise":
                    continue
                opts.append((bb, t == int(k)))
                vals.append(int(k))
            if "otherwise" in targets:
                opts.append((targets["otherwise"], z3.And([t != x for x in vals]) if vals else z3.BoolVal(True)))
            return self.choose(opts, "switch-int")
        raise Unsupported(f"switchInt on {v}")

    # -------------------------------------------------------------------- calls
    def call(self, fr, callee, args):
        self.prog.stats["calls"] += 1
        m_ind = re.match(r"(move|copy) (.+)$", callee.strip())
        if m_ind and fr is not None:
            from .parse import parse_operand
            f = self.operand(fr, parse_operand(callee.strip()))
            return self.call_closure(f, args)
        if self.bind_stack[-1]:
            for pn, ty in self.bind_stack[-1].items():
                callee = re.sub(r"(?<![A-Za-z0-9_:])" + pn + r"(?![A-Za-z0-9_])", ty, callee)
        h = self.h.override(self, callee, args) if self.h is not None else NotImplemented
        if h is not NotImplemented:
            return h
        target = self.prog.resolve(callee)
        if target is not None:
            b = self.prog.last_bindings
            if b:
                self.bind_stack.append(b)
                try:
                    return self.call_func(target, args)
                finally:
                    self.bind_stack.pop()
            return self.call_func(target, args)
        from . import std
        r = std.call(self, callee, args)
        if r is NotImplemented:
            raise Unsupported(f"no model for callee {callee}")
        return r

    def call_func(self, func, args):
        try:
            func.parse()
        except MirSyntax as e:
            raise Unsupported(f"MIR of {func.name} not understood: {e}")
        self.prog.executed.add(func.name)
        fr = Frame(func)
        if len(args) != len(func.params):
            raise Unsupported(f"arity mismatch calling {func.name}")
        for (loc, _), v in zip(func.params, args):
            fr.cells[loc] = Cell(v, name=f"{func.name.split('::')[-1]}._{loc}")
        self.run_frame(fr)
        ret = fr.cells.get(0)
        return ret.v if ret is not None and ret.v is not UNINIT else Agg("tuple")

    def call_closure(self, f, args):
        """Call a closure / fn item value with the given argument list."""
        if isinstance(f, FnItem) and f.path.startswith("{closure@"):
            f = Agg(f.path)
        if isinstance(f, FnItem):
            ev = self.enum_of(f.path)
            if ev:
                return self.mk_enum(ev[0], ev[1], {i: a for i, a in enumerate(args)})
            return self.call(None, f.path, args)
        if isinstance(f, Ref):
            inner = self.read_ref(f)
            if isinstance(inner, (Agg, FnItem)):
                body = self.prog.closure_body(inner.ty) if isinstance(inner, Agg) else None
                if body is not None:
                    return self.call_func(body, [f] + args)
                return self.call_closure(inner, args)
        if isinstance(f, Agg) and f.ty.startswith("{closure@"):
            body = self.prog.closure_body(f.ty)
            if body is None:
                raise Unsupported(f"closure body for {f.ty} not found")
            body.parse()
            first = body.params[0][1]
            if first.startswith("&"):
                c = Cell(f, name="closure-env")
                return self.call_func(body, [Ref(c, (), first.startswith("&mut"))] + args)
            return self.call_func(body, [f] + args)
        raise Unsupported(f"call of non-callable {f}")

    # -------------------------------------------------------------------- Value terms
    def to_val(self, v):
        """Structured or symbolic Value -> z3 term of sort Val."""
        if isinstance(v, SymVal):
            return v.t
        if isinstance(v, Ref):
            return self.to_val(self.read_ref(v))
        if isinstance(v, Agg) and v.ty == "Value":
            tag = v.variant
            if tag == "None":
                return VAL.None_
            p = v.fields[0]
            if tag == "Bool" and isinstance(p, BoolV):
                return VAL.Bool(p.t)
            if tag == "Int" and isinstance(p, IntV):
                return VAL.Int(self.zi(p))
            if tag == "String" and isinstance(p, Str):
                return VAL.String(p.t)
            if tag in ("Float", "Decimal", "DateTime", "Duration") and isinstance(p, Opq):
                return mk_val(tag, p.t)
            if tag == "Vec" and isinstance(p, VecV):
                return VAL.Vec(self.vec_id(p))
            if tag == "Map" and isinstance(p, MapV):
                return VAL.Map(self.map_id(p))
        raise Unsupported(f"cannot turn {v} into a Value term")

    def vec_id(self, p):
        if p.abs is not None:
            return p.abs
        vid = self.fresh("vec", z3.IntSort())
        self.assume(vec_len(vid) == len(p.items))
        for i, x in enumerate(p.items):
            self.assume(vec_at(vid, i) == self.to_val(x))
        self.prog.vec_shapes[str(vid)] = len(p.items)
        return vid

    def map_id(self, p):
        if len(p.layers) == 1 and p.layers[0][0] == "abs":
            return p.layers[0][2]
        mid = self.fresh("map", z3.IntSort())
        k = z3.String(f"k!{mid}")
        base = [l for l in p.layers if l[0] == "abs"]
        if base and p.layers[0][0] != "abs" or len(base) > 1:
            raise Unsupported("map with interleaved abstract layers as a Value")
        keys = []
        # newest binding wins
        seen = []
        for l in reversed([l for l in p.layers if l[0] == "kv"]):
            kt = l[1].t
            shadow = z3.And([kt != s for s in seen]) if seen else z3.BoolVal(True)
            self.assume(z3.Implies(shadow, z3.And(map_has(mid, kt), map_at(mid, kt) == self.to_val(l[2]))))
            seen.append(kt)
            keys.append(kt)
        q = z3.String(f"q!{mid}")
        other = z3.And([q != s for s in seen]) if seen else z3.BoolVal(True)
        if base:
            b = base[0][2]
            self.assume(z3.ForAll([q], z3.Implies(other, z3.And(map_has(mid, q) == map_has(b, q), map_at(mid, q) == map_at(b, q)))))
        else:
            self.assume(z3.ForAll([q], z3.Implies(other, z3.Not(map_has(mid, q)))))
        self.prog.map_shapes[str(mid)] = [str(s) for s in seen]
        return mid


# ------------------------------------------------------------------------------------------------ program
class Program:
    def __init__(self, mir_text, sources, max_steps=200000):
        self.funcs, self.consts = parse_dump(mir_text)
        self.sources = sources
        self.layouts = Layouts(sources)
        self.max_steps = max_steps
        self.stats = {"queries": 0, "calls": 0, "paths": 0}
        self.executed = set()
        self.vec_shapes = {}
        self.map_shapes = {}
        self._index()
        global VTAGS
        if "Value" in self.layouts.enums:
            VTAGS = list(self.layouts.enums["Value"])
            if sorted(VTAGS) != sorted(["String", "Int", "Float", "Decimal", "Bool", "DateTime", "Duration", "Vec", "Map", "None"]):
                raise Unsupported(f"enum Value no longer has the ten variants the Value sort models: {VTAGS}")

    # definition index -----------------------------------------------------------------------------
    def _index(self):
        self.by_norm = {}
        self.generic_impls = {}   # (trait name, method) -> [(self regex, trait regex, params, Func)]
        self.bodies = {}          # coroutine / closure type text -> Func
        self.span_bodies = {}
        for name, f in self.funcs.items():
            for key in self._def_keys(name):
                self.by_norm.setdefault(key, []).append(f)
            if f.params:
                t = f.params[0][1]
                m = re.match(r"std::pin::Pin<&mut (.+)>$", t)
                inner = m.group(1) if m else re.sub(r"^&(mut )?", "", t)
                if inner.startswith("{"):
                    self.bodies.setdefault(inner, f)
                    sm = re.search(r"@([^ }]+:\d+:\d+: \d+:\d+)", inner)
                    if sm:
                        self.span_bodies.setdefault(sm.group(1), f)

    def _impl_header(self, span):
        m = re.match(r"(.+?):(\d+):(\d+): (\d+):(\d+)$", span)
        if not m:
            return None
        src = self.sources.get(m.group(1))
        if src is None:
            return None
        lines = src.split("\n")
        l1, c1, l2, c2 = (int(m.group(i)) for i in range(2, 6))
        if l1 == l2:
            return lines[l1 - 1][c1 - 1:c2 - 1]
        return " ".join([lines[l1 - 1][c1 - 1:]] + lines[l1:l2 - 1] + [lines[l2 - 1][:c2 - 1]])

    @staticmethod
    def _short(t):
        """Drop module paths, lifetimes and whitespace from a type / trait text."""
        t = re.sub(r"'\w+\s*,?\s*", "", t)
        t = re.sub(r"\b(?:[a-z_][a-z0-9_]*::)+", "", t)
        t = re.sub(r"<\s*>", "", t)
        return re.sub(r"\s+", "", t)

    def _def_keys(self, name):
        keys = [("path", self._short(strip_generics(name)))]
        m = re.search(r"<impl at ([^>]+)>::(.+)$", name)
        if m:
            hdr = self._impl_header(m.group(1))
            rest = m.group(2)
            if hdr:
                params = []
                gm = re.match(r"^impl\s*<", hdr.strip())
                h = hdr.strip()[4:].strip()
                if gm:
                    # generic parameter list: balanced <...>
                    depth, j = 0, 0
                    for j, ch in enumerate(h):
                        depth += {"<": 1, ">": -1}.get(ch, 0)
                        if depth == 0:
                            break
                    plist = h[1:j]
                    h = h[j + 1:].strip()
                    depth, cur, parts = 0, [], []
                    for ch in plist:
                        if ch in "<(":
                            depth += 1
                        elif ch in ">)":
                            depth -= 1
                        if ch == "," and depth == 0:
                            parts.append("".join(cur))
                            cur = []
                        else:
                            cur.append(ch)
                    parts.append("".join(cur))
                    params = [re.match(r"\s*(\w+)", x).group(1) for x in parts if re.match(r"\s*\w", x) and not x.strip().startswith("'")]
                if params and " for " in h and "{closure" not in rest:
                    tr, ty = h.split(" for ", 1)
                    def rx(t):
                        t = re.escape(self._short(t))
                        for pn in params:
                            t = re.sub(r"(?<![A-Za-z0-9_])" + pn + r"(?![A-Za-z0-9_])", f"(?P<{pn}>.+)", t, count=1)
                            t = re.sub(r"(?<![A-Za-z0-9_<])" + pn + r"(?![A-Za-z0-9_>])", f"(?P={pn})", t)
                        return re.compile("^" + t + "$")
                    try:
                        self.generic_impls.setdefault((self._short(strip_generics(tr)), rest), []).append((rx(ty), rx(tr), params, self.funcs[name]))
                    except re.error:
                        pass
                if " for " in h:
                    tr, ty = h.split(" for ", 1)
                    if not params:
                        keys.append(("trait", self._short(tr), self._short(ty), rest))
                        keys.append(("trait-s", self._short(tr), self._short(strip_generics(ty)), rest))
                    keys.append(("trait-any", self._short(strip_generics(tr)), self._short(strip_generics(ty)), rest))
                else:
                    keys.append(("inherent", self._short(strip_generics(h)), rest))
        return keys

    def resolve(self, callee):
        """Call-site path -> Func of the crate, or None. For a generic impl, self.last_bindings holds the type-parameter bindings."""
        self.last_bindings = None
        c = callee.strip()
        if c in self.funcs:
            return self.funcs[c]
        # <T as Trait<..>>::method
        m = re.match(r"<(.+) as (.+?)>::(\w+)(::<.*>)?$", c)
        if m and not m.group(1).startswith(("dyn ", "{")):
            ty, tr, meth = m.group(1), m.group(2), m.group(3)
            ty = re.sub(r"^&(mut )?", "", ty)
            fs = self.by_norm.get(("trait", self._short(tr), self._short(ty), meth))
            if fs and len(fs) == 1:
                return fs[0]
            hits = []
            for srx, trx, params, f in self.generic_impls.get((self._short(strip_generics(tr)), meth), []):
                m1, m2 = srx.match(self._short(ty)), trx.match(self._short(tr))
                if m1 and m2:
                    b = dict(m2.groupdict())
                    b.update({k: v for k, v in m1.groupdict().items() if v is not None})
                    hits.append((f, {k: v for k, v in b.items() if v is not None}))
            if len(hits) == 1:
                self.last_bindings = hits[0][1]
                return hits[0][0]
            fs = self.by_norm.get(("trait-s", self._short(tr), self._short(strip_generics(ty)), meth))
            if not hits and fs and len(fs) == 1:
                return fs[0]
            return None
        base = strip_generics(c)
        # path::<impl path::Type>::method[::{closure#n}]
        m = re.match(r"(.*?)<impl ([^>]+)>::(.+)$", re.sub(r"::<[^<>]*(<[^<>]*>[^<>]*)*>", "", c))
        if m:
            fs = self.by_norm.get(("inherent", self._short(strip_generics(m.group(2))), m.group(3)))
            if fs and len(fs) == 1:
                return fs[0]
        segs = [s for s in base.split("::") if s]
        fs = self.by_norm.get(("path", self._short(base)))
        if fs and len(fs) == 1:
            return fs[0]
        # Type::method  (inherent impl in the type's own module)
        for n in (2, 3):
            if len(segs) >= n:
                fs = self.by_norm.get(("inherent", segs[-n], "::".join(segs[-n + 1:])))
                if fs and len(fs) == 1:
                    return fs[0]
        return None

    def closure_body(self, ty):
        if ty in self.bodies:
            return self.bodies[ty]
        if ty.startswith("{coroutine@") and not getattr(self, "_co_indexed", False):
            # async fn bodies: the constructing function contains the `{coroutine@SPAN}` aggregate, its poll function is `::{closure#0}`
            self._co_indexed = True
            for name, f in self.funcs.items():
                if name + "::{closure#0}" in self.funcs:
                    for sm in re.finditer(r"= \{coroutine@([^ }]+:\d+:\d+: \d+:\d+)", f.text):
                        self.span_bodies.setdefault(sm.group(1), self.funcs[name + "::{closure#0}"])
        m = re.search(r"@([^ }]+:\d+:\d+: \d+:\d+)", ty)
        if m:
            return self.span_bodies.get(m.group(1))
        return None

    def coroutine_body(self, self_ty):
        """`{async fn body of path()}` / `{async block@span}` -> the poll function."""
        if self_ty in self.bodies:
            return self.bodies[self_ty]
        m = re.match(r"\{async fn body of (.+)\(\)\}$", self_ty)
        if m:
            f = self.resolve(m.group(1))
            if f is not None and f.name + "::{closure#0}" in self.funcs:
                return self.funcs[f.name + "::{closure#0}"]
        return self.closure_body(self_ty)

    def find_const(self, c):
        if c in self.consts:
            return self.consts[c]
        m = re.search(r"::(\w+)::promoted\[(\d+)\]$", c)
        if m:
            cands = [f for n, f in self.consts.items() if n.endswith(f"::{m.group(1)}::promoted[{m.group(2)}]")]
            if len(cands) == 1:
                return cands[0]
            # methods: match the last two segments after dropping generics
            key = self._short(strip_generics(c))
            cands = [f for n, f in self.consts.items() if self._short(strip_generics(n)).split("::")[-2:] == key.split("::")[-2:]]
            if len(cands) == 1:
                return cands[0]
        return None


class Explorer:
    """Enumerates all feasible paths of `body(ex)`; yields (ex, result | exception) per path."""

    def __init__(self, prog, harness, max_paths=4000):
        self.prog, self.harness, self.max_paths = prog, harness, max_paths

    def paths(self, body):
        work = [[]]
        n = 0
        while work:
            prefix = work.pop()
            n += 1
            if n > self.max_paths:
                raise PathLimit(f"more than {self.max_paths} paths")
            ex = Executor(self.prog, self.harness, prefix)
            self.prog.stats["paths"] += 1
            try:
                res = body(ex)
                out = ("ok", res)
            except Panic as e:
                out = ("panic", str(e))
            work.extend(ex.pending)
            yield ex, out


def _unescape_rust(s):
    out = []
    i = 0
    while i < len(s):
        c = s[i]
        if c == "\\" and i + 1 < len(s):
            n = s[i + 1]
            if n == "u":
                j = s.index("}", i)
                out.append(chr(int(s[i + 3:j], 16)))
                i = j + 1
                continue
            if n == "x":
                out.append(chr(int(s[i + 2:i + 4], 16)))
                i += 4
                continue
            out.append({"n": "\n", "r": "\r", "t": "\t", "0": "\0", "\\": "\\", '"': '"', "'": "'"}.get(n, n))
            i += 2
            continue
        out.append(c)
        i += 1
    return "".join(out)


def _unescape_bytes(s):
    out = []
    i = 0
    while i < len(s):
        c = s[i]
        if c == "\\" and i + 1 < len(s):
            n = s[i + 1]
            if n == "x":
                out.append(int(s[i + 2:i + 4], 16))
                i += 4
                continue
            out.append(ord({"n": "\n", "r": "\r", "t": "\t", "0": "\0", "\\": "\\", '"': '"', "'": "'"}.get(n, n)))
            i += 2
            continue
        out.append(ord(c))
        i += 1
    return out
