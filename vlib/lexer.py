"""E2: the lexer of reval.lalrpop as a multi-pattern DFA, built on every run from the regex / literal texts extracted
from the source.  Semantics of lalrpop's built-in matcher (read from lalrpop-util/src/lexer.rs): anchored longest match
over all patterns, ties resolved by priority (literal tokens > regex tokens of the `match` block > regex tokens of the
`else` block), skip patterns loop, an empty skip match or no match is an InvalidToken error.

Regex syntax is parsed with Python's sre parser (the constructs used by the grammar are common to both dialects);
`\\s` is Unicode White_Space and `.` excludes only `\\n`, as in the regex crate's Unicode mode.
"""
import re

try:
    import re._parser as sre_parse
    import re._constants as sre_c
except ImportError:  # pragma: no cover
    import sre_parse
    import sre_constants as sre_c

from .common import EncodingError

MAXCP = 0x110000
WHITE_SPACE = [(9, 13), (32, 32), (0x85, 0x85), (0xA0, 0xA0), (0x1680, 0x1680), (0x2000, 0x200A), (0x2028, 0x2029),
               (0x202F, 0x202F), (0x205F, 0x205F), (0x3000, 0x3000)]
DIGITS = [(48, 57)]
WORD = [(48, 57), (65, 90), (95, 95), (97, 122)]   # ASCII approximation; the grammar does not use \w


def norm(ranges):
    out = []
    for lo, hi in sorted(ranges):
        if out and lo <= out[-1][1] + 1:
            out[-1] = (out[-1][0], max(out[-1][1], hi))
        else:
            out.append((lo, hi))
    return out


def negate(ranges):
    out, prev = [], 0
    for lo, hi in norm(ranges):
        if lo > prev:
            out.append((prev, lo - 1))
        prev = hi + 1
    if prev < MAXCP:
        out.append((prev, MAXCP - 1))
    return out


class NFA:
    def __init__(self):
        self.eps = {}      # state -> set(states)
        self.trans = []    # (state, ranges, state)
        self.n = 0

    def new(self):
        self.n += 1
        return self.n - 1

    def e(self, a, b):
        self.eps.setdefault(a, set()).add(b)


def category_ranges(cat):
    name = str(cat)
    neg = "NOT" in name
    if "SPACE" in name:
        r = WHITE_SPACE
    elif "DIGIT" in name:
        r = DIGITS
    elif "WORD" in name:
        r = WORD
    else:
        raise EncodingError(f"regex category {name} not supported")
    return negate(r) if neg else list(r)


def set_ranges(items):
    neg = False
    rs = []
    for op, av in items:
        if op is sre_c.NEGATE:
            neg = True
        elif op is sre_c.LITERAL:
            rs.append((av, av))
        elif op is sre_c.RANGE:
            rs.append((av[0], av[1]))
        elif op is sre_c.CATEGORY:
            rs += category_ranges(av)
        else:
            raise EncodingError(f"regex set item {op} not supported")
    rs = norm(rs)
    return negate(rs) if neg else rs


def build_nfa(nfa, parsed, start):
    """Thompson construction; returns the end state."""
    cur = start
    for op, av in parsed:
        if op is sre_c.LITERAL:
            nxt = nfa.new()
            nfa.trans.append((cur, [(av, av)], nxt))
            cur = nxt
        elif op is sre_c.NOT_LITERAL:
            nxt = nfa.new()
            nfa.trans.append((cur, negate([(av, av)]), nxt))
            cur = nxt
        elif op is sre_c.ANY:
            nxt = nfa.new()
            nfa.trans.append((cur, negate([(10, 10)]), nxt))
            cur = nxt
        elif op is sre_c.IN:
            nxt = nfa.new()
            nfa.trans.append((cur, set_ranges(av), nxt))
            cur = nxt
        elif op is sre_c.SUBPATTERN:
            cur = build_nfa(nfa, av[3], cur)
        elif op is sre_c.BRANCH:
            end = nfa.new()
            for alt in av[1]:
                s = nfa.new()
                nfa.e(cur, s)
                e = build_nfa(nfa, alt, s)
                nfa.e(e, end)
            cur = end
        elif op in (sre_c.MAX_REPEAT, sre_c.MIN_REPEAT):
            lo, hi, sub = av
            for _ in range(lo):
                cur = build_nfa(nfa, sub, cur)
            if hi == sre_c.MAXREPEAT:
                s = nfa.new()
                nfa.e(cur, s)
                e = build_nfa(nfa, sub, s)
                nfa.e(e, s)
                cur = s
            else:
                end = nfa.new()
                nfa.e(cur, end)
                for _ in range(hi - lo):
                    cur = build_nfa(nfa, sub, cur)
                    nfa.e(cur, end)
                cur = end
        else:
            raise EncodingError(f"regex construct {op} not supported by the encoder")
    return cur


class Pattern:
    def __init__(self, name, kind, text, tier, skip):
        self.name, self.kind, self.text, self.tier, self.skip = name, kind, text, tier, skip

    def regex(self):
        return self.text if self.kind == "re" else re.escape(self.text)

    def prio(self):
        # literals beat regexes of the match block, which beat regexes of the else block
        return (0 if self.kind == "lit" else 1 + self.tier)


class Lexer:
    """patterns: list of Pattern. Higher index in self.order = higher priority (as in the generated matcher)."""

    def __init__(self, patterns):
        self.patterns = list(patterns)
        # priority order ascending (lowest first) like lalrpop's generated list
        self.order = sorted(range(len(self.patterns)), key=lambda i: (-self.patterns[i].prio(), self.patterns[i].regex()))
        self.rank = {pi: r for r, pi in enumerate(self.order)}
        nfa = NFA()
        self.nfa = nfa
        self.start = nfa.new()
        self.accept = {}
        for i, p in enumerate(self.patterns):
            try:
                parsed = sre_parse.parse(p.regex())
            except Exception as e:
                raise EncodingError(f"regex of {p.name} not parsed: {p.regex()!r}: {e}")
            s = nfa.new()
            nfa.e(self.start, s)
            end = build_nfa(nfa, parsed, s)
            self.accept[end] = i
        self._classes()
        self._dfa()

    def _closure(self, states):
        stack, seen = list(states), set(states)
        while stack:
            s = stack.pop()
            for t in self.nfa.eps.get(s, ()):
                if t not in seen:
                    seen.add(t)
                    stack.append(t)
        return frozenset(seen)

    def _classes(self):
        cuts = {0, MAXCP}
        for _, rs, _ in self.nfa.trans:
            for lo, hi in rs:
                cuts.add(lo)
                cuts.add(hi + 1)
        cuts = sorted(cuts)
        intervals = [(cuts[i], cuts[i + 1] - 1) for i in range(len(cuts) - 1)]
        sig = {}
        for lo, hi in intervals:
            key = tuple(k for k, (_, rs, _) in enumerate(self.nfa.trans) if any(a <= lo and hi <= b for a, b in rs))
            sig.setdefault(key, []).append((lo, hi))
        self.classes = []        # list of (ranges) ; class id = index
        self.class_trans = []    # class id -> set of transition indices
        for key, ivs in sorted(sig.items(), key=lambda kv: kv[1][0]):
            self.classes.append(norm(ivs))
            self.class_trans.append(set(key))

    def class_of(self, cp):
        for cid, rs in enumerate(self.classes):
            for lo, hi in rs:
                if lo <= cp <= hi:
                    return cid
        raise ValueError(cp)

    def rep(self, cid, avoid_surrogate=True):
        """A representative code point of a class (prefer printable ASCII)."""
        best = None
        for lo, hi in self.classes[cid]:
            for c in range(lo, min(hi, lo + 300) + 1):
                if 0xD800 <= c <= 0xDFFF:
                    continue
                if 33 <= c < 127:
                    return c
                if best is None:
                    best = c
        return best

    def _dfa(self):
        start = self._closure({self.start})
        self.dstates = [start]
        index = {start: 0}
        self.delta = []      # state -> [next state or -1 per class]
        by_src = {}
        for k, (s, _, t) in enumerate(self.nfa.trans):
            by_src.setdefault(s, []).append((k, t))
        i = 0
        while i < len(self.dstates):
            S = self.dstates[i]
            row = []
            for cid in range(len(self.classes)):
                tgt = set()
                for s in S:
                    for k, t in by_src.get(s, ()):
                        if k in self.class_trans[cid]:
                            tgt.add(t)
                if not tgt:
                    row.append(-1)
                    continue
                T = self._closure(tgt)
                if T not in index:
                    index[T] = len(self.dstates)
                    self.dstates.append(T)
                row.append(index[T])
            self.delta.append(row)
            i += 1
        self.acc = []       # state -> winning pattern index or -1
        self.acc_all = []
        for S in self.dstates:
            pats = [self.accept[s] for s in S if s in self.accept]
            self.acc_all.append(sorted(set(pats)))
            self.acc.append(max(pats, key=lambda p: self.rank[p]) if pats else -1)

    # ------------------------------------------------------------------ concrete tokenisation (for validation)
    def tokenize(self, text):
        """Returns (tokens, error): tokens = list of (pattern index, lexeme)."""
        out = []
        pos = 0
        cps = [ord(c) for c in text]
        while pos < len(cps):
            st, last, i = 0, None, pos
            if self.acc[0] >= 0:
                last = (self.acc[0], pos)
            while i < len(cps):
                st = self.delta[st][self.class_of(cps[i])]
                if st < 0:
                    break
                i += 1
                if self.acc[st] >= 0:
                    last = (self.acc[st], i)
            if last is None:
                return out, True
            pat, end = last
            if self.patterns[pat].skip:
                if end == pos:
                    return out, True
                pos = end
                continue
            out.append((pat, text[pos:end]))
            pos = end
        return out, False

    def matches(self, pat_index, text):
        """Does pattern `pat_index` alone match the whole text?"""
        st = 0
        for c in text:
            st = self.delta[st][self.class_of(ord(c))]
            if st < 0:
                return False
        return pat_index in self.acc_all[st]

    def native_spec(self):
        """(regex, skip) list in the priority order the generated matcher uses (index = priority)."""
        return [(self.patterns[i].regex(), self.patterns[i].skip) for i in self.order]


def from_grammar(g):
    pats = []
    for name in g.order:
        kind, text, tier = g.terminals[name]
        pats.append(Pattern(name, kind, text, tier, False))
    for k, (rx, tier) in enumerate(g.skips):
        pats.append(Pattern(f"__skip{k}", "re", rx, tier, True))
    return Lexer(pats)


# ------------------------------------------------------------------------------------------------------------
# z3 encoding of tokenisation over a symbolic string
def joint_classes(lexers):
    """Partition of code points refining the classes of all lexers: list of (ranges, [class id per lexer])."""
    cuts = {0, MAXCP}
    for lx in lexers:
        for rs in lx.classes:
            for lo, hi in rs:
                cuts.add(lo)
                cuts.add(hi + 1)
    cuts = sorted(cuts)
    sig = {}
    for i in range(len(cuts) - 1):
        lo, hi = cuts[i], cuts[i + 1] - 1
        key = tuple(lx.class_of(lo) for lx in lexers)
        sig.setdefault(key, []).append((lo, hi))
    return [(norm(ivs), list(key)) for key, ivs in sorted(sig.items(), key=lambda kv: kv[1][0])]


def pick_char(ranges):
    best = None
    for lo, hi in ranges:
        for c in range(lo, min(hi, lo + 400) + 1):
            if 0xD800 <= c <= 0xDFFF:
                continue
            if 33 <= c < 127 and chr(c) not in "\\\"":
                return c
            if best is None or (best < 32 and c >= 32):
                best = c
    return best


def encode_tokens(s, z3, lx, tag, cls_vars, n, names):
    """cls_vars[i]: z3 Int = this lexer's class id of character i. names[pattern index] = comparable token name id
    (Int) or None for skip patterns. Returns list of (kind, start, end) z3 Int triples, one per step k<=n:
    kind = name id of the k-th token, -1 = end of input, -2 = lexical error."""
    I = z3.IntVal
    DEAD = len(lx.dstates)

    def step(st, ci):
        e = I(DEAD)
        for si, row in enumerate(lx.delta):
            inner = None
            for cj, t in enumerate(row):
                if t >= 0:
                    inner = z3.If(ci == cj, I(t), inner if inner is not None else I(DEAD))
            if inner is not None:
                e = z3.If(st == si, inner, e)
        return e

    def best(st):
        e = I(-1)
        for si, p in enumerate(lx.acc):
            if p >= 0:
                e = z3.If(st == si, I(p), e)
        return e
    tok_at = {}
    for p in range(n):
        st = I(0)
        end = I(p)
        pat = I(lx.acc[0]) if lx.acc[0] >= 0 else I(-1)
        for q in range(p + 1, n + 1):
            nst = z3.Int(f"{tag}S_{p}_{q}")
            s.add(nst == step(st, cls_vars[q - 1]))
            st = nst
            b = z3.Int(f"{tag}B_{p}_{q}")
            s.add(b == best(st))
            end = z3.If(b >= 0, I(q), end)
            pat = z3.If(b >= 0, b, pat)
        tok_at[p] = (end, pat)
    skip_ids = [i for i, p in enumerate(lx.patterns) if p.skip]

    def is_skip(pt):
        return z3.Or([pt == i for i in skip_ids]) if skip_ids else z3.BoolVal(False)

    def name_of(pt):
        e = I(-3)
        for i, nm in enumerate(names):
            if nm is not None:
                e = z3.If(pt == i, I(nm), e)
        return e
    # walk: each step consumes one match (token or skip); record tokens only. At most n matches.
    pos = I(0)
    out = []
    err = z3.BoolVal(False)
    emitted = []
    for k in range(n + 1):
        e = I(n)
        pt = I(-1)
        for p in range(n - 1, -1, -1):
            e = z3.If(pos == p, tok_at[p][0], e)
            pt = z3.If(pos == p, tok_at[p][1], pt)
        at_end = pos >= n
        bad = z3.And(z3.Not(at_end), z3.Or(pt < 0, e == pos))
        kind = z3.Int(f"{tag}kind_{k}")
        nxt = z3.Int(f"{tag}pos_{k + 1}")
        errv = z3.Bool(f"{tag}err_{k}")
        s.add(errv == z3.Or(err, bad))
        s.add(kind == z3.If(errv, I(-2), z3.If(at_end, I(-1), z3.If(is_skip(pt), I(-4), name_of(pt)))))
        s.add(nxt == z3.If(z3.Or(errv, at_end), pos, e))
        emitted.append((kind, pos, nxt))
        pos = nxt
        err = errv
    return emitted


def token_stream(s, z3, emitted, n, tag):
    """Compress the match sequence (tokens, skips, end, error) into the sequence of tokens: returns
    (count, [(kind, start, end)]*n, error flag)."""
    I = z3.IntVal
    cnt = I(0)
    slots = [(I(-1), I(-1), I(-1))] * (n + 1)
    err = z3.BoolVal(False)
    for kind, st, en in emitted:
        is_tok = kind >= 0
        new = []
        for r in range(n + 1):
            new.append(tuple(z3.If(z3.And(is_tok, cnt == r), v, slots[r][c]) for c, v in enumerate((kind, st, en))))
        slots = new
        cnt = z3.If(is_tok, cnt + 1, cnt)
        err = z3.Or(err, kind == -2)
    cv = z3.Int(f"{tag}cnt")
    s.add(cv == cnt)
    ev = z3.Bool(f"{tag}lexerr")
    s.add(ev == err)
    named = []
    for r in range(n + 1):
        vs = tuple(z3.Int(f"{tag}T{r}_{c}") for c in range(3))
        for c in range(3):
            s.add(vs[c] == slots[r][c])
        named.append(vs)
    return cv, named, ev
