"""C08(a): bounded equivalence of the source lexer and the reference lexical spec over a symbolic string (z3)."""
import json
import os
import time

import z3

from . import lexer, refgrammar
from .common import EncodingError


def source_names(syn, lx):
    """token name id per pattern of the source lexer: index into syn.alphabet (same ids the reference uses)."""
    names = []
    for p in lx.patterns:
        if p.skip:
            names.append(None)
        else:
            ids = syn.src_term_ids[p.name]
            names.append(ids[0])
    return names


def ref_names(syn, rl):
    names = []
    for p in rl.patterns:
        names.append(None if p.skip else syn.alphabet.index(p.name))
    return names


def whole_token(s, lx, tag, cls_vars, names):
    """z3 Int: name id of the highest-priority pattern of `lx` matching the whole symbolic string, -1 none, -4 skip."""
    I = z3.IntVal
    DEAD = len(lx.dstates)
    st = I(0)
    for q, ci in enumerate(cls_vars):
        e = I(DEAD)
        for si, row in enumerate(lx.delta):
            inner = None
            for cj, t in enumerate(row):
                if t >= 0:
                    inner = z3.If(ci == cj, I(t), inner if inner is not None else I(DEAD))
            if inner is not None:
                e = z3.If(st == si, inner, e)
        nst = z3.Int(f"{tag}S_{q}")
        s.add(nst == e)
        st = nst
    res = I(-1)
    for si, p in enumerate(lx.acc):
        if p >= 0:
            nm = names[p]
            res = z3.If(st == si, I(-4 if nm is None else nm), res)
    return res


def skip_star(lx):
    """Single-pattern lexer for (skip1|skip2|..)*: the texts a lexer can skip entirely."""
    alts = "|".join(f"(?:{p.regex()})" for p in lx.patterns if p.skip)
    return lexer.Lexer([lexer.Pattern("SKIPSTAR", "re", f"(?:{alts})*", 0, False)])


def lexer_equivalence(run, syn, helper, n_max, budget_s):
    """Tokenisation is the iteration of `first match` (longest prefix some pattern accepts, winner by priority), and two
    lexers have the same first-match function on all strings iff, for every string u, the highest-priority pattern
    matching the WHOLE of u (if any) is the same in both. So one query per length n: is there a string of n code
    points that is token X for the source patterns and token Y (or no token) for the reference spec?"""
    lx = lexer.from_grammar(syn.g)
    rl = refgrammar.reference_lexer()
    lx_skip, rl_skip = skip_star(lx), skip_star(rl)
    joint = lexer.joint_classes([lx, rl, lx_skip, rl_skip])
    spec_path = os.path.join(run.scratch, "lexspec.json")
    with open(spec_path, "w") as f:
        json.dump(lx.native_spec(), f)
    validate_model(run, syn, helper, lx, spec_path)
    sn, rn = source_names(syn, lx), ref_names(syn, rl)
    t_all = time.time()
    reached = 0
    for n in range(1, n_max + 1):
        if time.time() - t_all > budget_s:
            run.inconc(f"lexer-n{n}", f"time budget of {budget_s}s exhausted before n={n}", mandatory=(n <= 6))
            break
        t0 = time.time()
        s = z3.Solver()
        s.set("timeout", int(max(30, budget_s - (time.time() - t_all)) * 1000))
        jc = [z3.Int(f"c{i}") for i in range(n)]
        for c in jc:
            s.add(c >= 0, c < len(joint))

        def cls_vars(k):
            out = []
            for c in jc:
                e = z3.IntVal(joint[-1][1][k])
                for j in range(len(joint) - 2, -1, -1):
                    e = z3.If(c == j, z3.IntVal(joint[j][1][k]), e)
                out.append(e)
            return out
        # source side: pattern index (a regex token may stand for several keyword spellings: any of its alphabet ids is fine)
        wa_p = whole_token(s, lx, "a", cls_vars(0), [pi for pi in range(len(lx.patterns))])
        wb = whole_token(s, rl, "b", cls_vars(1), rn)
        ok_pairs = [z3.And(wa_p == -1, wb == -1)]
        for pi, pat in enumerate(lx.patterns):
            if pat.skip:
                ok_pairs.append(z3.And(wa_p == pi, wb == -4))
            else:
                ids = syn.src_term_ids[pat.name]
                ok_pairs.append(z3.And(wa_p == pi, z3.Or([wb == i for i in ids])))
        agree = z3.Or(ok_pairs)
        # text that both lexers skip entirely (however they split it among their skip patterns) is not a difference
        ska = whole_token(s, lx_skip, "sa", cls_vars(2), [0])
        skb = whole_token(s, rl_skip, "sb", cls_vars(3), [0])
        s.add(z3.Not(agree), z3.Not(z3.And(ska == 0, skb == 0)))
        enc = time.time() - t0
        if os.environ.get("VERIF_DUMP_SMT"):
            with open(os.path.join(os.environ["VERIF_DUMP_SMT"], f"C08-lexer-n{n}.smt2"), "w") as f:
                f.write("(set-logic ALL)\n" + s.to_smt2())
        found, verdict = 0, "pass"
        while found < 3:
            t1 = time.time()
            r = s.check()
            run.solver_time_s += time.time() - t1
            if r == z3.unknown:
                verdict = "unknown"
                run.inconc(f"lexer-n{n}", f"z3 returned unknown ({s.reason_unknown()})", mandatory=(n <= 6))
                break
            if r == z3.unsat:
                break
            m = s.model()
            ids = [m.eval(c, model_completion=True).as_long() for c in jc]
            text = "".join(chr(lexer.pick_char(joint[i][0])) for i in ids)
            verdict = "fail"
            found += 1
            confront_lex(run, syn, helper, lx, rl, spec_path, text)
            s.add(z3.Or([c != v for c, v in zip(jc, ids)]))
        run.obligation(f"lexer-equivalence-n{n}", "z3-query", verdict, time.time() - t0,
                       bounds={"code_points": n, "char_classes": len(joint), "dfa_states": [len(lx.dstates), len(rl.dstates)]},
                       encode_s=round(enc, 2), witnesses=found)
        reached = n
    return lx, rl, reached


def describe(syn, lxr, names, toks):
    return [(syn.alphabet[names[p]], t) for p, t in toks]


def confront_lex(run, syn, helper, lx, rl, spec_path, text):
    """A solver witness: tokenise with lalrpop's real matcher (source patterns) and with the reference spec."""
    nat = helper.call("lex", [text], [spec_path])[0]
    mine, err = lx.tokenize(text)
    mine_s = ("LEXERR" if err else "OK") + "".join(f" {lx.rank[p]}:{len(t.encode())}" for p, t in mine)
    parts = nat.split(" ")
    nat_s = parts[0] + "".join(f" {x.split(':')[0]}:{int(x.split(':')[2]) - int(x.split(':')[1])}" for x in parts[1:] if x)
    if mine_s != nat_s:
        run.inconc(f"lexer:{text!r}", f"DFA model of the source lexer disagrees with lalrpop's real matcher on {text!r}: "
                   f"{mine_s} vs {nat_s}", mandatory=True)
        return
    reft, rerr = rl.tokenize(text)
    src_desc = ("LEXERR " if err else "") + " ".join(f"{syn.alphabet[source_names(syn, lx)[p]]}={t!r}" for p, t in mine)
    ref_desc = ("LEXERR " if rerr else "") + " ".join(f"{syn.alphabet[ref_names(syn, rl)[p]]}={t!r}" for p, t in reft)
    rn_ = ref_names(syn, rl)
    same = (err == rerr) and len(mine) == len(reft) and all(
        t1 == t2 and rn_[p2] in syn.src_term_ids[lx.patterns[p1].name] for (p1, t1), (p2, t2) in zip(mine, reft))
    if same:
        run.inconc(f"lexer:{text!r}", f"solver witness {text!r} does not reproduce on the concrete lexers", mandatory=True)
        return
    parse_real = helper.call("parse", [text])[0]
    # cell id: the token classes involved (not the concrete characters)
    cell = "lex:" + " ".join(syn.alphabet[ref_names(syn, rl)[p]] for p, _ in reft[:4]) + (" LEXERR" if rerr else "")
    run.finding(cell, "tokenises-differently",
                f"{text!r}: real lexer gives [{src_desc}], the reference lexical spec gives [{ref_desc}]",
                {"kind": "lex", "text": text, "real_tokens": src_desc, "reference_tokens": ref_desc, "real_parse": parse_real})


def harvest_suite_inputs(run):
    """String literals passed to Expr::parse / Rule::parse in the repository's own tests."""
    import re
    texts = []
    for rel in ("src/parse/expr.rs", "src/parse/rule.rs", "tests/mod.rs", "tests/builtin.rs", "tests/datetime.rs", "tests/iif.rs"):
        try:
            src = run.read(rel)
        except OSError:
            continue
        for m in re.finditer(r'(?:parse|eval_expr)\(\s*(r#"(.*?)"#|r"([^"]*)"|"((?:[^"\\]|\\.)*)")', src, re.S):
            if m.group(2) is not None:
                texts.append(m.group(2))
            elif m.group(3) is not None:
                texts.append(m.group(3))
            else:
                try:
                    texts.append(bytes(m.group(4), "utf-8").decode("unicode_escape"))
                except Exception:
                    pass
    return sorted(set(texts))


def validate_model(run, syn, helper, lx, spec_path):
    texts = harvest_suite_inputs(run) + ["inty int i5 i5x f1e f1e5 f.5 d.5 0x1g", "a.b.3 // c\r x\n y", "!==>=<==", "0b12 0o89", "é", ""]
    texts = [t for t in texts if "\n" not in t or True]
    res = helper.call("lex", texts, [spec_path])
    n = 0
    for t, nat in zip(texts, res):
        mine, err = lx.tokenize(t)
        mine_s = ("LEXERR" if err else "OK") + "".join(f" {lx.rank[p]}:{len(x.encode())}" for p, x in mine)
        parts = nat.split(" ")
        nat_s = parts[0] + "".join(f" {x.split(':')[0]}:{int(x.split(':')[2]) - int(x.split(':')[1])}" for x in parts[1:] if x)
        if mine_s != nat_s:
            raise EncodingError(f"DFA model of the source lexer disagrees with lalrpop's real matcher on {t!r}: {mine_s} vs {nat_s}")
        n += 1
    run.extra["traces_validated_against_impl"] = run.extra.get("traces_validated_against_impl", 0) + n
