"""Shared plumbing for every check: scratch snapshot of /repo, known findings, evidence, verdict lines.

Exit codes of a check:  0 = property held on everything explored (known findings listed)
                        1 = at least one confirmed (natively replayed) violation not listed as known
                        2 = the machinery could not decide (encoding error, non-reproducing counterexample,
                            mandatory obligation without verdict) -- never reported as VIOLATION
"""
import atexit
import json
import os
import shutil
import signal
import subprocess
import sys
import tempfile
import time

VERIF = os.path.dirname(os.path.dirname(os.path.abspath(__file__)))
REPO = os.environ.get("VERIF_REPO", "/repo")
SCRATCH_BASE = os.environ.get("VERIF_SCRATCH", tempfile.gettempdir())
NCPU = int(os.environ.get("VERIF_JOBS", str(os.cpu_count() or 4)))

ENV = dict(os.environ)
ENV.update({"CARGO_NET_OFFLINE": "true", "CARGO_TERM_COLOR": "never"})
ENV.pop("RUSTFLAGS", None)


class EncodingError(Exception):
    """The machinery cannot encode / decide; never a violation."""


def log(*a):
    print(*a, file=sys.stderr, flush=True)


class Run:
    """One invocation of one check."""

    def __init__(self, prop, tier, seed):
        self.prop = prop
        self.tier = tier
        self.seed = seed
        self.t0 = time.time()
        self.pid = os.getpid()
        self.scratch = tempfile.mkdtemp(prefix=f"reval-verif-{prop}-", dir=SCRATCH_BASE)
        self.snap = os.path.join(self.scratch, "reval")
        self.obligations = []      # dicts: id, kind, bounds, verdict, time_s, ...
        self.findings = []         # dicts: cell, cls, what, replay (path), confirmed
        self.inconclusive = []     # dicts: id, reason, mandatory(bool)
        self.notes = []
        self.assumptions = []
        self.functions_encoded = set()
        self.outside_claim = []
        self.solver_time_s = 0.0
        self.extra = {}
        atexit.register(self.cleanup)
        for sig in (signal.SIGTERM, signal.SIGINT, signal.SIGHUP):
            signal.signal(sig, self._sig)

    def _sig(self, signum, frame):
        if os.getpid() != self.pid:
            os._exit(143)
        self.cleanup()
        os._exit(130)

    def cleanup(self):
        if os.getpid() != getattr(self, "pid", os.getpid()):
            return      # a forked worker must never remove the parent's scratch directory
        if os.environ.get("VERIF_KEEP"):
            log(f"[keep] scratch left at {self.scratch}")
            return
        shutil.rmtree(self.scratch, ignore_errors=True)

    # ---------------------------------------------------------------- snapshot
    def snapshot(self):
        """Copy /repo's current working tree (not HEAD) into the scratch directory."""
        os.makedirs(self.snap, exist_ok=True)
        subprocess.run(["rsync", "-a", "--delete", "--exclude", "/target", "--exclude", "/.git",
                        REPO.rstrip("/") + "/", self.snap + "/"], check=True)
        try:
            self.repo_head = subprocess.run(["git", "-C", REPO, "rev-parse", "--short", "HEAD"],
                                            capture_output=True, text=True).stdout.strip()
            self.repo_dirty = bool(subprocess.run(["git", "-C", REPO, "status", "--porcelain"],
                                                  capture_output=True, text=True).stdout.strip())
        except Exception:
            self.repo_head, self.repo_dirty = "?", False
        return self.snap

    def read(self, rel):
        with open(os.path.join(self.snap, rel), encoding="utf-8") as f:
            return f.read()

    def append(self, rel, text):
        with open(os.path.join(self.snap, rel), "a", encoding="utf-8") as f:
            f.write("\n" + text)

    def write(self, rel, text):
        p = os.path.join(self.snap, rel)
        os.makedirs(os.path.dirname(p), exist_ok=True)
        with open(p, "w", encoding="utf-8") as f:
            f.write(text)

    # ---------------------------------------------------------------- results
    def obligation(self, oid, kind, verdict, time_s=0.0, **kw):
        d = {"id": oid, "kind": kind, "verdict": verdict, "time_s": round(time_s, 3)}
        d.update(kw)
        self.obligations.append(d)
        return d

    def finding(self, cell, cls, what, replay_data):
        """A confirmed (natively reproduced) violation. replay_data is written to /verif/replays."""
        rdir = os.path.join(VERIF, "replays", self.prop)
        os.makedirs(rdir, exist_ok=True)
        safe = "".join(c if c.isalnum() or c in "-_." else "_" for c in f"{cell}__{cls}")[:150]
        path = os.path.join(rdir, safe + ".json")
        with open(path, "w") as f:
            json.dump({"property": self.prop, "cell": cell, "class": cls, "what": what,
                       "repo_head": getattr(self, "repo_head", "?"), "replay": replay_data}, f, indent=1)
        self.findings.append({"cell": cell, "cls": cls, "what": what, "replay": path})

    def inconc(self, oid, reason, mandatory=True):
        self.inconclusive.append({"id": oid, "reason": reason, "mandatory": mandatory})

    # ---------------------------------------------------------------- finish
    def finish(self, rule, samples=None, level="model_checking"):
        known = load_known()
        violations = []
        for f in self.findings:
            k = match_known(known, self.prop, f["cell"], f["cls"])
            if k:
                print(f"KNOWN-FINDING: property={self.prop} {k['what']} [cell={f['cell']} class={f['cls']}]")
            else:
                violations.append(f)
        for f in violations:
            print(f"VIOLATION property={self.prop} replay={f['replay']}")
            print(f"  cell={f['cell']} class={f['cls']}: {f['what']}")
        mand = [i for i in self.inconclusive if i["mandatory"]]
        decided = [o for o in self.obligations if o["verdict"] in ("pass", "fail", "known")]
        nontrivial = [o for o in decided if o.get("nontrivial", True)]
        ev = {
            "property_id": self.prop,
            "tier": self.tier,
            "seed": self.seed,
            "level": level,
            "coverage": {
                "evaluations": len(self.obligations),
                "distinct_nontrivial": len({o["id"] for o in nontrivial}),
                "rule": rule,
                "samples": samples if samples is not None else self.obligations[:12],
                "obligations": len(self.obligations),
                "discharged": len(decided),
                "functions_encoded": sorted(self.functions_encoded),
                "solver_time_s": round(self.solver_time_s, 2),
                "inconclusive": self.inconclusive,
                "outside_claim": self.outside_claim,
                "known_findings_reported": [f for f in self.findings if f not in violations],
                "all_obligations": self.obligations,
                "notes": self.notes,
                "repo_head": getattr(self, "repo_head", "?"),
                "repo_dirty": getattr(self, "repo_dirty", False),
                "exhaustive": False,
            },
            "assumptions": self.assumptions,
            "wall_s": round(time.time() - self.t0, 2),
            "violations": len(violations),
        }
        ev["coverage"].update(self.extra)
        # VERIF_EVIDENCE_DIR: developer runs against seeded / refactored trees must not overwrite the committed evidence
        evdir = os.environ.get("VERIF_EVIDENCE_DIR") or os.path.join(VERIF, "evidence")
        os.makedirs(evdir, exist_ok=True)
        with open(os.path.join(evdir, f"{self.prop}.json"), "w") as f:
            json.dump(ev, f, indent=1, default=str)
        n_pass = sum(1 for o in self.obligations if o["verdict"] == "pass")
        print(f"[{self.prop}] tier={self.tier} obligations={len(self.obligations)} pass={n_pass} "
              f"violations={len(violations)} known={len(self.findings) - len(violations)} "
              f"inconclusive={len(self.inconclusive)} solver_s={self.solver_time_s:.1f} "
              f"wall_s={time.time() - self.t0:.1f}")
        if violations:
            return 1
        if mand:
            for i in mand:
                print(f"INCONCLUSIVE (mandatory) {i['id']}: {i['reason']}")
            return 2
        if len(decided) < 1:
            print("no obligation was decided")
            return 2
        return 0


def load_known():
    p = os.path.join(VERIF, "known_findings.json")
    if not os.path.exists(p):
        return {"known": [], "fixed": []}
    with open(p) as f:
        return json.load(f)


def match_known(known, prop, cell, cls):
    import fnmatch
    for k in known.get("known", []):
        if k["property"] == prop and fnmatch.fnmatchcase(cell, k["cell"]) and k["class"] == cls:
            return k
    return None


def run_cmd(cmd, cwd=None, timeout=None, env=None, mem_gb=None, stdout_path=None):
    """Run a command; returns (rc, output). rc=-9 on timeout."""
    e = dict(ENV)
    if env:
        e.update(env)
    pre = None
    if mem_gb:
        import resource

        def pre():
            lim = int(mem_gb * (1 << 30))
            resource.setrlimit(resource.RLIMIT_AS, (lim, lim))
            os.setsid()
    else:
        pre = os.setsid
    out_f = open(stdout_path, "w") if stdout_path else subprocess.PIPE
    p = subprocess.Popen(cmd, cwd=cwd, env=e, stdout=out_f, stderr=subprocess.STDOUT, text=True,
                         preexec_fn=pre)
    try:
        out, _ = p.communicate(timeout=timeout)
        rc = p.returncode
    except subprocess.TimeoutExpired:
        try:
            os.killpg(p.pid, signal.SIGKILL)
        except Exception:
            p.kill()
        out, _ = p.communicate()
        rc = -9
    if stdout_path:
        out_f.close()
        with open(stdout_path, errors="replace") as f:
            out = f.read()
    return rc, out or ""
