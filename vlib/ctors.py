"""Kani harnesses for the public Expr constructors: `Expr::ctor(children..)` builds exactly `Expr::Variant(children..)`,
for leaf children and for children that are themselves nodes (so a constructor that rewrites, folds or collapses its
arguments is caught). The grammar actions build every tree through these constructors."""
from .kani import Harness
from .refgrammar import REF_CTORS

FILE = "src/expr/mod.rs"


def leaf(i):
    return f"Expr::Value(Value::Int(k{i}))"


def is_leaf(ref, i):
    return f"matches!({ref}, Expr::Value(Value::Int(x)) if *x == k{i})"


def harnesses(tier):
    hs = []
    names = sorted(REF_CTORS)
    # child shapes: a leaf, and a node of kind W over a leaf, for W in a set of wrapper kinds
    wrappers_quick = ["same", "Neg", "Not"]
    for ctor in names:
        variant, arity = REF_CTORS[ctor]
        shapes = list(wrappers_quick)
        if tier == "thorough":
            shapes += sorted({v for v, a in REF_CTORS.values() if a == 1} - {"Neg", "Not", variant})
        for shape in ["leaf"] + shapes:
            w = variant if shape == "same" else shape
            decl = "".join(f"let k{i} = inp.i128(); " for i in range(arity + 2))
            for pos in (range(arity) if shape != "leaf" else [0]):
                kids, pats = [], []
                for i in range(arity):
                    if shape != "leaf" and i == pos:
                        wv, wa = (variant, arity) if shape == "same" else (w, 1)
                        inner = ", ".join(f"Box::new({leaf(arity + j)})" for j in range(min(wa, 2))) if wa <= 2 else \
                            ", ".join(f"Box::new({leaf(arity + (j % 2))})" for j in range(wa))
                        kids.append(f"Expr::{wv}({inner})")
                        ipat = ", ".join(f"g{j}" for j in range(wa))
                        icond = " && ".join(is_leaf(f"&**g{j}", arity + (j % 2)) for j in range(wa))
                        pats.append(f"matches!(&**c{i}, Expr::{wv}({ipat}) if {icond})")
                    else:
                        kids.append(leaf(i))
                        pats.append(is_leaf(f"&**c{i}", i))
                args = ", ".join(kids)
                cpat = ", ".join(f"c{i}" for i in range(arity))
                body = f"""
        {decl}
        let r = Expr::{ctor}({args});
        show("built", &r);
        assert!(matches!(&r, Expr::{variant}({cpat}) if {' && '.join(pats)}));
        std::mem::forget(r);"""
                h = Harness(f"ctor_{ctor}_{shape}_{pos}", body, unwind=2,
                            meta={"constructor": f"Expr::{ctor}", "expected": f"Expr::{variant}", "child_shape": shape, "position": pos})
                h.file = FILE
                hs.append(h)
    # named constructors
    hs_named = [
        ("ctor_func", """
        let k0 = inp.i128();
        let r = Expr::func("fname", Expr::Value(Value::Int(k0)));
        assert!(matches!(&r, Expr::Function(n, c0) if n.as_bytes() == b"fname" && matches!(&**c0, Expr::Value(Value::Int(x)) if *x == k0)));
        std::mem::forget(r);"""),
        ("ctor_reff", """
        let r = Expr::reff("rname");
        assert!(matches!(&r, Expr::Reference(n) if n.as_bytes() == b"rname"));
        std::mem::forget(r);"""),
        ("ctor_symbol", """
        let r = Expr::symbol("sname");
        assert!(matches!(&r, Expr::Symbol(n) if n.as_bytes() == b"sname"));
        std::mem::forget(r);"""),
        ("ctor_index", """
        let k0 = inp.i128(); let i = inp.usize();
        let r = Expr::index(Expr::Value(Value::Int(k0)), Index::from(i));
        assert!(matches!(&r, Expr::Index(c0, Index::Vec(j)) if *j == i && matches!(&**c0, Expr::Value(Value::Int(x)) if *x == k0)));
        std::mem::forget(r);
        let r2 = Expr::index(Expr::Value(Value::Int(k0)), Index::from("fld"));
        assert!(matches!(&r2, Expr::Index(c0, Index::Map(n)) if n.as_bytes() == b"fld" && matches!(&**c0, Expr::Value(Value::Int(x)) if *x == k0)));
        std::mem::forget(r2);"""),
    ]
    for nm, body in hs_named:
        h = Harness(nm, body, unwind=8, meta={"constructor": nm[5:]})
        h.file = FILE
        hs.append(h)
    return hs
