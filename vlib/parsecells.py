"""Kani harnesses over reval's own parser code: the helper functions of src/parse/helpers.rs, src/parse/unescape.rs and the
action snippets of the grammar that touch token text (C06: never panic on any text the token's regex admits;
C08 b/c: the literal denotes exactly what is written)."""
import re

from . import lexer
from .common import EncodingError
from .kani import Harness

HELPERS = "src/parse/helpers.rs"

PRE_BASE = r"""
    use crate::expr::{Expr, Index};
    use std::str::FromStr;
    fn stub_format(_a: core::fmt::Arguments<'_>) -> String { String::new() }
    // core's cold str-slicing failure path formats a message through loops; keep the panic, drop the formatting
    fn st_slice_fail(_s: &str, _b: usize, _e: usize) -> ! { panic!("str slice index is out of range or not on a char boundary") }
    // total nondeterministic stand-ins for dependency parsers (contract: Ok or Err, never a panic); they record their input
    static mut REC_PTR: usize = 0;
    static mut REC_LEN: usize = 0;
    static mut REC_RADIX: u32 = 0;
    static mut REC_CALLS: u32 = 0;
    static mut RET_OK: bool = false;
    static mut RET_I128: i128 = 0;
    static mut RET_F64: f64 = 0.0;
    static mut RET_USIZE: usize = 0;
    fn note(s: &str, radix: u32) { unsafe { REC_PTR = s.as_ptr() as usize; REC_LEN = s.len(); REC_RADIX = radix; REC_CALLS += 1; } }
    fn int_err() -> core::num::ParseIntError { u8::from_str_radix("", 10).unwrap_err() }
    fn st_i128_from_str(s: &str) -> core::result::Result<i128, core::num::ParseIntError> { note(s, 10); unsafe { if RET_OK { Ok(RET_I128) } else { Err(int_err()) } } }
    fn st_i128_from_str_radix(s: &str, radix: u32) -> core::result::Result<i128, core::num::ParseIntError> { note(s, radix); unsafe { if RET_OK { Ok(RET_I128) } else { Err(int_err()) } } }
    fn st_usize_from_str(s: &str) -> core::result::Result<usize, core::num::ParseIntError> { note(s, 10); unsafe { if RET_OK { Ok(RET_USIZE) } else { Err(int_err()) } } }
    fn st_f64_from_str(s: &str) -> core::result::Result<f64, core::num::ParseFloatError> { note(s, 0); unsafe { if RET_OK { Ok(RET_F64) } else { Err(unsafe { core::mem::transmute::<u8, core::num::ParseFloatError>(0) }) } } }
    fn st_dec_from_str(s: &str) -> core::result::Result<rust_decimal::Decimal, rust_decimal::Error> { note(s, 0); unsafe { if RET_OK { Ok(rust_decimal::Decimal::from_parts(RET_USIZE as u32, 0, 0, false, 1)) } else { Err(rust_decimal::Error::ConversionTo(String::new())) } } }
    fn passed(text: &str, skip: usize) -> bool { unsafe { REC_CALLS == 1 && REC_PTR == text.as_ptr() as usize + skip && REC_LEN == text.len() - skip } }
"""
PARSER_STUBS = [("<i128 as core::str::FromStr>::from_str", "st_i128_from_str"), ("i128::from_str_radix", "st_i128_from_str_radix"),
                ("<usize as core::str::FromStr>::from_str", "st_usize_from_str"), ("<f64 as core::str::FromStr>::from_str", "st_f64_from_str"),
                ("<rust_decimal::Decimal as core::str::FromStr>::from_str", "st_dec_from_str"),
                ("alloc::fmt::format", "stub_format")]
PRE_DRAW = ("let ret_ok = inp.bool(); let ret_i = inp.i128(); let ret_f = inp.f64(); let ret_u = inp.usize();\n"
            "        unsafe { RET_OK = ret_ok; RET_I128 = ret_i; RET_F64 = ret_f; RET_USIZE = ret_u; REC_CALLS = 0; }")


def acceptor_rust(name, rx):
    """Rust fn acc_<name>(b: &[u8]) -> bool for ASCII bytes, compiled from the regex text by the DFA builder."""
    lx = lexer.Lexer([lexer.Pattern(name, "re", rx, 0, False)])
    # byte -> class
    arms = []
    for cid, rs in enumerate(lx.classes):
        conds = []
        for lo, hi in rs:
            if lo > 127:
                continue
            hi = min(hi, 127)
            conds.append(f"(c >= {lo} && c <= {hi})" if lo != hi else f"c == {lo}")
        if conds:
            arms.append(f"if {' || '.join(conds)} {{ {cid} }}")
    cls_fn = " else ".join(arms) + " else { 255 }"
    trans = []
    for si, row in enumerate(lx.delta):
        for cj, t in enumerate(row):
            if t >= 0:
                trans.append(f"({si}, {cj}) => {t},")
    accept = " || ".join(f"st == {si}" for si, p in enumerate(lx.acc) if p >= 0) or "false"
    return f"""
    fn acc_{name}(b: &[u8]) -> bool {{
        let mut st: u16 = 0;
        let mut i = 0;
        while i < b.len() {{
            let c = b[i];
            let k: u8 = {cls_fn};
            st = match (st, k) {{ {' '.join(trans)} _ => return false }};
            i += 1;
        }}
        {accept}
    }}"""


class Actions:
    """What the grammar does with the text of each regex token (read from the extracted productions)."""

    def __init__(self, syn):
        self.syn = syn
        g = syn.g
        self.by_term = {}       # terminal name -> list of (kind, helper or action text, prod)
        for p in g.prods:
            act = p.action
            if act[0] == "leaf" and p.rhs and p.rhs[act[2]] in g.terminals and g.terminals[p.rhs[act[2]]][0] == "re":
                m = re.search(r"Ok\((\w+)\(", p.text)
                if m:
                    self.by_term.setdefault(p.rhs[act[2]], []).append(("helper", m.group(1), p))
            elif act[0] == "node" and act[1] == "IndexNum":
                tokpos = [a for k, a in act[2] if k == "tok"][0]
                self.by_term.setdefault(p.rhs[tokpos], []).append(("index_action", p.text.split("=>", 1)[1].lstrip("?").strip(), p))

    def helper_for(self, cls):
        """helper function used for the terminal that lexes the canonical lexeme of class `cls`."""
        for name, items in self.by_term.items():
            ids = self.syn.src_term_ids.get(name, [])
            if any(self.syn.alphabet[i] == "C:" + cls for i in ids):
                return name, items
        return None, []


def terminal_regex(syn, name):
    kind, text, tier = syn.g.terminals[name]
    return text if kind == "re" else re.escape(text)


def buf_decl(n, extra_assume=""):
    decl = "".join(f"let b{i} = inp.u8(); assume(b{i} < 128); " for i in range(n))
    arr = "[" + ", ".join(f"b{i}" for i in range(n)) + "]"
    return f"""{decl}
        let buf: [u8; {n}] = {arr};
        let text = unsafe {{ core::str::from_utf8_unchecked(&buf) }};"""


def gen_nopanic(syn, tier):
    """C06: for every regex token whose text reaches reval code, every ASCII text of the given lengths that the token's
    regex admits: the code returns (a value or an error) - Kani's panic / slice / UTF-8 boundary checks decide."""
    acts = Actions(syn)
    pre = [PRE_BASE]
    hs = []
    lens_real = {"INT": [2, 3, 5, 8], "HEX_INT": [3, 4, 6], "OCT_INT": [3, 4, 6], "BIN_INT": [3, 4, 8], "INDEX": [1, 3, 6, 20],
                 "FLOAT": [2, 3, 4, 6], "DECIMAL": [2, 3, 4, 6]}
    lens_stub = {"INT": [40, 41], "HEX_INT": [34, 35], "OCT_INT": [46], "BIN_INT": [130], "INDEX": [20, 21], "FLOAT": [], "DECIMAL": [], "STRING": []}
    if tier == "thorough":
        lens_real["INT"] += [10]
        lens_real["INDEX"] += [10]
    for cls in lens_real:
        name, items = acts.helper_for(cls)
        if not name:
            raise EncodingError(f"no grammar action consumes the text of token class {cls}")
        rx = terminal_regex(syn, name)
        pre.append(acceptor_rust(cls, rx))
        for kind, what, prod in items:
            if kind == "helper":
                call = f"let r = {what}(text); std::mem::forget(r);"
            else:
                # verbatim action body with `l` a leaf expression and `r` the token text
                tokvar = re.search(r"usize::from_str\((\w+)\)", what)
                tv = tokvar.group(1) if tokvar else "r"
                subvar = re.search(r"Expr::index\((\w+),", what)
                sv = subvar.group(1) if subvar else "l"
                pre.append(f"""
    fn action_{cls}({sv}: Expr, {tv}: &str) -> core::result::Result<Expr, lalrpop_util::ParseError<usize, lalrpop_util::lexer::Token<'static>, RevalParseError>> {{
        {what if prod.fallible else 'Ok(' + what + ')'}
    }}""")
                call = f"let r = action_{cls}(Expr::Value(crate::value::Value::None), text); std::mem::forget(r);"
            floaty = cls in ("FLOAT", "DECIMAL")
            for n in lens_real[cls]:
                stubs = [s for s in PARSER_STUBS if ("f64" in s[0] or "Decimal" in s[0] or "fmt::format" in s[0])] if floaty else [PARSER_STUBS[-1]]
                body = f"""
        {buf_decl(n)}
        assume(acc_{cls}(&buf));
        {PRE_DRAW}
        show("text", &text);
        vcover!(true, "some admitted text of this length");
        {call}"""
                heavy = (cls == "STRING") or n >= 8
                hs.append(Harness(f"nopanic_{cls}_len{n}", body, unwind=n + 4, stubs=stubs, heavy=heavy, mandatory=not (cls == "STRING" and n >= 3),
                                  meta={"token": cls, "regex": rx, "length": n, "code": what,
                                        "dependency_parser": "stubbed total" if floaty else "real (std)"}))
            for n in lens_stub[cls]:
                body = f"""
        {buf_decl(n)}
        assume(acc_{cls}(&buf));
        {PRE_DRAW}
        vcover!(true, "some admitted text of this length");
        {call}"""
                # native replay of a stubbed harness: the dependency parser is real there, so use the text of this length that
                # makes it fail for certain (all digits maximal): the stub's `Err` answer is then the real answer
                top = {"INT": "9", "HEX_INT": "f", "OCT_INT": "7", "BIN_INT": "1", "INDEX": "9"}[cls]
                pref = {"INT": "i", "HEX_INT": "0x", "OCT_INT": "0o", "BIN_INT": "0b", "INDEX": ""}[cls]
                fixed = pref + top * (n - len(pref))
                native = f"""
        {buf_decl(n)}
        {PRE_DRAW}
        let text: &str = "{fixed}";
        show("text", &text);
        {call}"""
                hs.append(Harness(f"nopanic_{cls}_len{n}_stubbed", body, unwind=n + 4, stubs=PARSER_STUBS, heavy=True, native_body=native, abstract=True,
                                  meta={"token": cls, "regex": rx, "length": n, "code": what,
                                        "dependency_parser": "stubbed total (std's integer parser is not executed at this length)"}))
    return "\n".join(pre), hs


def gen_denote(syn, tier):
    """C08 (b): numeric literals denote what is written."""
    acts = Actions(syn)
    pre = [PRE_BASE]
    hs = []

    def helper(cls):
        name, items = acts.helper_for(cls)
        hh = [w for k, w, _ in items if k == "helper"]
        if not hh:
            raise EncodingError(f"no helper parses token class {cls}")
        return name, hh[0]
    # decimal integers: sign? digits, against Horner with overflow detection
    name, h_int = helper("INT")
    pre.append(acceptor_rust("INT", terminal_regex(syn, name)))
    digs = [1, 2, 3, 4, 6] + ([8] if tier == "thorough" else [])
    for sign in ("", "+", "-"):
        for d in digs:
            n = 1 + len(sign) + d
            decl = "".join(f"let d{i} = inp.u8(); assume(d{i} >= b'0' && d{i} <= b'9'); " for i in range(d))
            arr = "[b'i', " + (f"b'{sign}', " if sign else "") + ", ".join(f"d{i}" for i in range(d)) + "]"
            horner = "0i128" + "".join(f".wrapping_mul(10).wrapping_add((d{i} - b'0') as i128)" for i in range(d))
            body = f"""
        {decl}
        let buf: [u8; {n}] = {arr};
        let text = unsafe {{ core::str::from_utf8_unchecked(&buf) }};
        let r = {h_int}(text);
        show("text", &text); show("result", &r);
        let v: i128 = {horner};
        assert!(matches!(&r, Ok(crate::value::Value::Int(x)) if *x == {'-v' if sign == '-' else 'v'}));
        std::mem::forget(r);"""
            hs.append(Harness(f"denote_INT_{'plus' if sign == '+' else 'minus' if sign == '-' else 'nosign'}_{d}digits", body, unwind=n + 4,
                              heavy=(d >= 6), mandatory=(d <= 4),
                              meta={"literal": f"i{sign}<{d} digits>", "reference": "Horner in i128"}))
    for cls, radix, digits, pref in (("HEX_INT", 16, "0-9a-fA-F", "0x"), ("OCT_INT", 8, "0-7", "0o"), ("BIN_INT", 2, "01", "0b")):
        name, hf = helper(cls)
        for d in ([1, 2, 4] + ([6] if tier == "thorough" else [])):
            n = 2 + d
            if radix == 16:
                decl = "".join(f"let d{i} = inp.u8(); assume((d{i} >= b'0' && d{i} <= b'9') || (d{i} >= b'a' && d{i} <= b'f') || (d{i} >= b'A' && d{i} <= b'F')); " for i in range(d))
                val = lambda i: f"(if d{i} <= b'9' {{ d{i} - b'0' }} else if d{i} >= b'a' {{ d{i} - b'a' + 10 }} else {{ d{i} - b'A' + 10 }})"
            else:
                top = "7" if radix == 8 else "1"
                decl = "".join(f"let d{i} = inp.u8(); assume(d{i} >= b'0' && d{i} <= b'{top}'); " for i in range(d))
                val = lambda i: f"(d{i} - b'0')"
            horner = "0i128" + "".join(f" * {radix} + {val(i)} as i128" for i in range(d))
            horner = "0i128"
            for i in range(d):
                horner = f"({horner} * {radix} + {val(i)} as i128)"
            arr = f"[b'0', b'{pref[1]}', " + ", ".join(f"d{i}" for i in range(d)) + "]"
            body = f"""
        {decl}
        let buf: [u8; {n}] = {arr};
        let text = unsafe {{ core::str::from_utf8_unchecked(&buf) }};
        let r = {hf}(text);
        show("text", &text); show("result", &r);
        assert!(matches!(&r, Ok(crate::value::Value::Int(x)) if *x == {horner}));
        std::mem::forget(r);"""
            hs.append(Harness(f"denote_{cls}_{d}digits", body, unwind=n + 4, heavy=(d >= 4), mandatory=(d <= 2),
                              meta={"literal": f"{pref}<{d} digits>", "reference": f"Horner radix {radix}"}))
    # structural: the helper hands exactly the text after the prefix, with the right radix, to the std / rust_decimal parser and
    # wraps its result unchanged (this reaches the i128 limits, doubles and decimals, whose conversion is the dependency's contract)
    for cls, skip, radix, okpat, sample in (("INT", 1, 10, "crate::value::Value::Int(x)) if *x == ret_i", "i-12345678901234567890"),
                                            ("HEX_INT", 2, 16, "crate::value::Value::Int(x)) if *x == ret_i", "0xDEADbeef00"),
                                            ("OCT_INT", 2, 8, "crate::value::Value::Int(x)) if *x == ret_i", "0o777000"),
                                            ("BIN_INT", 2, 2, "crate::value::Value::Int(x)) if *x == ret_i", "0b101010"),
                                            ("FLOAT", 1, 0, "crate::value::Value::Float(x)) if same_f64(*x, ret_f)", "f-1.5e300"),
                                            ("DECIMAL", 1, 0, "crate::value::Value::Decimal(x)) if x.mantissa() == (ret_u as u32) as i128 && x.scale() == 1", "d+12345.678")):
        name, hf = helper(cls)
        body = f"""
        {PRE_DRAW}
        let text: &str = "{sample}";
        let r = {hf}(text);
        assert!(passed(text, {skip}));
        assert!(unsafe {{ REC_RADIX }} == {radix});
        vcover!(ret_ok, "dependency parser succeeds"); vcover!(!ret_ok, "dependency parser fails");
        if ret_ok {{ assert!(matches!(&r, Ok({okpat})); }} else {{ assert!(r.is_err()); }}
        std::mem::forget(r);"""
        hs.append(Harness(f"passthrough_{cls}", body, unwind=4, stubs=PARSER_STUBS,
                          meta={"literal": sample, "claim": f"passes text[{skip}..] (radix {radix}) to the dependency parser and wraps its result unchanged"}))
    return "\n".join(pre), hs


UNESCAPE = HELPERS   # helpers.rs imports unescape; all string harnesses live in the helpers overlay
UPRE = r"""
    fn ref_escape(c: u8) -> Option<u8> {
        match c { b'n' => Some(10), b'r' => Some(13), b't' => Some(9), b'\\' => Some(92), b'\'' => Some(39), b'"' => Some(34), _ => None }
    }
    fn out_is(r: &Result<String, UnescapeError>, bytes: &[u8]) -> bool {
        match r { Ok(o) => { let b = o.as_bytes(); if b.len() != bytes.len() { return false; } let mut i = 0; while i < bytes.len() { if b[i] != bytes[i] { return false; } i += 1; } true } Err(_) => false }
    }
    fn hexval(h: u8) -> u32 { if h <= b'9' { (h - b'0') as u32 } else if h >= b'a' { (h - b'a') as u32 + 10 } else { (h - b'A') as u32 + 10 } }
"""
FMT_STUB = [("alloc::fmt::format", "stub_format")]
SLICE_STUB = [("core::str::slice_error_fail", "st_slice_fail")]


def gen_unescape(syn, tier, mode):
    """String literal bodies of fixed shapes with symbolic ASCII bytes. mode c08: against the reference decoder
    (\\n \\r \\t \\\\ \\' \\" map to their character, any other escape is an error, everything else verbatim);
    mode c06: no panic (includes shapes with a 2-byte character before the escape)."""
    hs = []
    f = mode == "c08"

    def add(name, body, unwind, heavy=True, mandatory=True, quick=True, meta=None):
        if tier == "quick" and not quick:
            return
        hs.append(Harness(f"{mode}_{name}", body, unwind=unwind, stubs=FMT_STUB + SLICE_STUB, heavy=heavy, mandatory=mandatory, meta=meta or {}))

    add("unescape_empty", f"""
        let r = unescape("");
        {'assert!(out_is(&r, &[]));' if f else ''}
        std::mem::forget(r);""", 3, heavy=False, meta={"body": "empty"})
    add("unescape_1char", f"""
        let b0 = inp.u8(); assume(b0 < 128);
        let buf = [b0];
        let s = unsafe {{ core::str::from_utf8_unchecked(&buf) }};
        let r = unescape(s);
        show("body", &s); show("result", &r);
        {'if b0 == 92 { assert!(r.is_err()); } else { assert!(out_is(&r, &buf)); }' if f else ''}
        std::mem::forget(r);""", 4, meta={"body": "every single ASCII character"})
    add("unescape_backslash_x", f"""
        let b1 = inp.u8(); assume(b1 < 128);
        let buf = [92u8, b1];
        let s = unsafe {{ core::str::from_utf8_unchecked(&buf) }};
        let r = unescape(s);
        show("body", &s); show("result", &r);
        {'match ref_escape(b1) { Some(c) => assert!(out_is(&r, &[c])), None => assert!(r.is_err()) }' if f else ''}
        std::mem::forget(r);""", 5, meta={"body": "backslash followed by every ASCII character (every two-character escape)"})
    add("unescape_2chars_plain", f"""
        let b0 = inp.u8(); let b1 = inp.u8(); assume(b0 < 128 && b1 < 128 && b0 != 92);
        let buf = [b0, b1];
        let s = unsafe {{ core::str::from_utf8_unchecked(&buf) }};
        let r = unescape(s);
        {'if b1 == 92 { assert!(r.is_err()); } else { assert!(out_is(&r, &buf)); }' if f else ''}
        std::mem::forget(r);""", 5, mandatory=False, quick=False, meta={"body": "two ASCII characters, the first not a backslash"})
    for d in ((2,) if tier == "quick" else (1, 2, 4)):
        decl = "".join(f"let h{i} = inp.u8(); assume((h{i} >= b'0' && h{i} <= b'9') || (h{i} >= b'a' && h{i} <= b'f') || (h{i} >= b'A' && h{i} <= b'F')); " for i in range(d))
        arr = "[92u8, b'u', b'{', " + ", ".join(f"h{i}" for i in range(d)) + ", b'}']"
        cp = "0u32"
        for i in range(d):
            cp = f"({cp} * 16 + hexval(h{i}))"
        body = f"""
        {decl}
        let buf = {arr};
        let s = unsafe {{ core::str::from_utf8_unchecked(&buf) }};
        let r = unescape(s);
        show("body", &s); show("result", &r);
        {f'let cp = {cp}; match char::from_u32(cp) {{ Some(c) => assert!(matches!(&r, Ok(o) if o.chars().count() == 1 && o.chars().next() == Some(c))), None => assert!(r.is_err()) }}' if f else ''}
        std::mem::forget(r);"""
        add(f"unescape_unicode_{d}digits", body, d + 8, mandatory=False, quick=False, meta={"body": f"\\u{{<{d} hex digits>}}"})
    # parse_string_literal = strip the quotes + unescape. A symbolic byte right after the opening quote makes CBMC
    # explore core's str-slicing failure path (381 s for one byte), so the quoted shapes keep that byte concrete.
    add("literal_empty", f"""
        let r = parse_string_literal("\\"\\"");
        {'assert!(matches!(&r, Ok(crate::value::Value::String(o)) if o.is_empty()));' if f else ''}
        std::mem::forget(r);""", 4, heavy=False, meta={"literal": 'the empty string literal ""'})
    add("literal_backslash_x", f"""
        let b1 = inp.u8(); assume(b1 < 128);
        let buf = [34u8, 92u8, b1, 34u8];
        let s = unsafe {{ core::str::from_utf8_unchecked(&buf) }};
        let r = parse_string_literal(s);
        show("literal", &s); show("result", &r);
        {'match ref_escape(b1) { Some(c) => assert!(matches!(&r, Ok(crate::value::Value::String(o)) if o.len() == 1 && o.as_bytes()[0] == c)), None => assert!(r.is_err()) }' if f else ''}
        std::mem::forget(r);""", 6, meta={"literal": 'quote, backslash, every ASCII character, quote'})
    add("literal_1char", f"""
        let b0 = inp.u8(); assume(b0 < 128 && b0 != 34 && b0 != 92);
        let buf = [34u8, b0, 34u8];
        let s = unsafe {{ core::str::from_utf8_unchecked(&buf) }};
        let r = parse_string_literal(s);
        {'assert!(matches!(&r, Ok(crate::value::Value::String(o)) if o.len() == 1 && o.as_bytes()[0] == b0));' if f else ''}
        std::mem::forget(r);""", 5, mandatory=False, quick=False, meta={"literal": "quote, every plain ASCII character, quote"})
    for nm, byts in (("cr_lf", [13, 10]), ("lf_cr", [10, 13]), ("cr", [13]), ("tab_lf", [9, 10])):
        arr = ", ".join(str(b) for b in byts)
        add(f"literal_raw_{nm}", f"""
        let buf = [34u8, {arr}, 34u8];
        let s = unsafe {{ core::str::from_utf8_unchecked(&buf) }};
        let r = parse_string_literal(s);
        show("literal", &s); show("result", &r);
        {'assert!(matches!(&r, Ok(crate::value::Value::String(o)) if o.as_bytes() == &[' + arr + ']));' if f else ''}
        std::mem::forget(r);""", 8, meta={"literal": f"raw line-ending characters {byts} between the quotes are kept verbatim (concrete input)"})
    if not f:
        add("literal_2byte_char_then_escape", """
        let b1 = inp.u8(); assume(b1 < 128);
        let buf = [34u8, 0xC3, 0xA9, 92u8, b1, 34u8];
        let s = unsafe { core::str::from_utf8_unchecked(&buf) };
        let r = parse_string_literal(s);
        std::mem::forget(r);""", 8, mandatory=False, meta={"literal": "quote, é, backslash, every ASCII character, quote"})
        add("unescape_2byte_char_then_escape", """
        let b1 = inp.u8(); assume(b1 < 128);
        let buf = [0xC3u8, 0xA9, 92u8, b1];
        let s = unsafe { core::str::from_utf8_unchecked(&buf) };
        let r = unescape(s);
        std::mem::forget(r);""", 7, mandatory=False, meta={"body": "é followed by backslash + every ASCII character"})
        add("unescape_escape_then_2byte_char", """
        let buf = [92u8, 0xC3u8, 0xA9];
        let s = unsafe { core::str::from_utf8_unchecked(&buf) };
        let r = unescape(s);
        std::mem::forget(r);""", 6, mandatory=False, meta={"body": "backslash followed by é"})
    return UPRE, hs


UNESCAPE_RS = "src/parse/unescape.rs"
UNI_PRE = r"""
    fn stub_format_u(_a: core::fmt::Arguments<'_>) -> String { String::new() }
    fn hexval_u(h: u8) -> u32 { if h <= b'9' { (h - b'0') as u32 } else if h >= b'a' { (h - b'a') as u32 + 10 } else { (h - b'A') as u32 + 10 } }
    fn ishex_u(h: u8) -> bool { (h >= b'0' && h <= b'9') || (h >= b'a' && h <= b'f') || (h >= b'A' && h <= b'F') }
"""


def gen_unicode(tier, functional):
    """`\\u{h..}`: parse_unicode (private, generic over the character iterator) is driven directly with an iterator over a
    fixed array, which avoids UTF-8 decoding of symbolic bytes: every escape with the listed number of hex digits denotes
    exactly that code point (or is an error when it is not a scalar value) and consumes exactly through the closing brace."""
    hs = []
    # (concrete leading digits, number of symbolic digits): from_str_radix over more than four symbolic digits does not finish,
    # so the 5-, 6- and 7-digit escapes (planes 1-16, zero-padded spellings, values past U+10FFFF) keep their leading digits
    # concrete - the iterator protocol (where the escape ends, what is left for the caller) is the same code whatever they are.
    shapes = ([("", 2), ("10FF", 2)] if tier == "quick" else
              [("", 1), ("", 2), ("", 3), ("", 4), ("1F6", 2), ("0000", 2), ("10FF", 2), ("11000", 1), ("00000", 2)])
    for prefix, nsym in shapes:
        d = len(prefix) + nsym
        decl = "".join(f"let h{i} = inp.u8(); assume(ishex_u(h{i})); " for i in range(nsym))
        digs = [f"b'{c}'" for c in prefix] + [f"h{i}" for i in range(nsym)]
        items = ", ".join(["(0usize, '{')"] + [f"({i + 1}usize, {g} as char)" for i, g in enumerate(digs)] + [f"({d + 1}usize, '}}')", f"({d + 2}usize, 'x')"])
        cp = "0u32"
        for g in digs:
            cp = f"({cp} * 16 + hexval_u({g}))"
        check = (f"let cp = {cp}; match char::from_u32(cp) {{ Some(c) => assert!(matches!(&r, Ok(x) if *x == c)), None => assert!(r.is_err()) }}\n"
                 "        assert!(matches!(it.next(), Some((_, 'x'))));") if functional else ""
        body = f"""
        {decl}
        let items = [{items}];
        let mut it = items.into_iter();
        let r = parse_unicode(&mut it);
        show("result", &r);
        {check}
        std::mem::forget(r);"""
        h = Harness(f"{'c08' if functional else 'c06'}_parse_unicode_{d}digits" + (f"_{prefix}" if prefix else ""), body, unwind=d + 10, stubs=[("alloc::fmt::format", "stub_format_u")],
                    heavy=True, mandatory=False, meta={"escape": f"\\u{{{prefix}<{nsym} hex digits>}}", "function": "parse::unescape::parse_unicode"})
        h.file = UNESCAPE_RS
        hs.append(h)
    return UNI_PRE, hs
