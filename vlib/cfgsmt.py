"""E2: bounded derivability and derivation trees of a CFG over a SYMBOLIC token vector, as a z3 formula.

For every nonterminal A and span [i,j) of the token vector t[0..n):
    D[A,i,j]   Bool   "A derives t[i..j)"
    Rec[A,i,j] record (kind, cnt, slot[0..M) = (lo, hi, key))  the semantic value built by the actions:
               tree nodes   kind = node kind, slots = arguments in constructor order
                            (sub-expression: its span; token argument: key = token position)
               pairs        kind = PAIR, slot0 = (value span, key token position)
               lists        kind = LIST, slots = elements
The grammar must be unambiguous (lalrpop only accepts LALR(1) grammars), so Rec is a function of the span.
"""
import itertools

import z3

from .common import EncodingError

PAIR, LIST = "__PAIR", "__LIST"


class KindTable:
    def __init__(self):
        self.ids = {}

    def id(self, k):
        return self.ids.setdefault(k, len(self.ids))

    def name(self, i):
        for k, v in self.ids.items():
            if v == i:
                return k
        return f"?{i}"


class Encoded:
    pass


def nullable_set(prods):
    nul = set()
    changed = True
    while changed:
        changed = False
        for p in prods:
            if p.lhs not in nul and all(s in nul for s in p.rhs):
                nul.add(p.lhs)
                changed = True
    return nul


def same_span_order(prods, nts, nul):
    """Topological order of nonterminals w.r.t. 'A can derive the whole span through B' (unit-like dependencies)."""
    dep = {a: set() for a in nts}
    for p in prods:
        for k, s in enumerate(p.rhs):
            if s in dep and all((o in nul) for m, o in enumerate(p.rhs) if m != k):
                if s != p.lhs:
                    dep[p.lhs].add(s)
                elif len(p.rhs) == 1:
                    raise EncodingError(f"unit cycle {p.lhs} -> {p.lhs}")
    order, seen, tmp = [], set(), set()

    def visit(a):
        if a in seen:
            return
        if a in tmp:
            raise EncodingError(f"cyclic unit derivations through {a}")
        tmp.add(a)
        for b in sorted(dep[a]):
            visit(b)
        tmp.discard(a)
        seen.add(a)
        order.append(a)
    for a in nts:
        visit(a)
    return order


def sort_of(prods):
    """tree | pair | list per nonterminal (static)."""
    srt = {}
    for p in prods:
        k = p.action[0]
        s = {"list": "list", "pair": "pair"}.get(k)
        if s:
            srt[p.lhs] = s
    changed = True
    while changed:
        changed = False
        for p in prods:
            if p.lhs in srt:
                continue
            if p.action[0] == "pass":
                sub = p.rhs[p.action[1]]
                if sub in srt:
                    srt[p.lhs] = srt[sub]
                    changed = True
            else:
                srt[p.lhs] = "tree"
                changed = True
    return srt


def encode(s, prods, nts, term_ids, toks, n, tag, kinds, M=4):
    """term_ids: terminal symbol name -> list of alphabet ids it stands for (usually one)."""
    nul = nullable_set(prods)
    order = same_span_order(prods, nts, nul)
    srt = sort_of(prods)
    by = {}
    for p in prods:
        by.setdefault(p.lhs, []).append(p)
    D = {a: {} for a in nts}
    R = {a: {} for a in nts}
    I = z3.IntVal
    NONE_SLOT = (I(-1), I(-1), I(-1))

    def is_term(sym):
        return sym in term_ids

    def tok_is(sym, pos):
        ids = term_ids[sym]
        if not ids:
            return z3.BoolVal(False)
        return z3.Or([toks[pos] == i for i in ids]) if len(ids) > 1 else toks[pos] == ids[0]

    def splits(rhs, i, j):
        if not rhs:
            if i == j:
                yield []
            return
        sym, rest = rhs[0], rhs[1:]
        if is_term(sym):
            if i < j:
                for r in splits(rest, i + 1, j):
                    yield [(i, i + 1)] + r
            return
        lo = 0 if sym in nul else 1
        # minimal length needed by the rest
        need = sum(1 for x in rest if is_term(x) or x not in nul)
        for k in range(i + lo, j - need + 1):
            for r in splits(rest, k, j):
                yield [(i, k)] + r

    def rec_of(sym, span):
        return R[sym].get(span)

    for length in range(0, n + 1):
        for i in range(0, n - length + 1):
            j = i + length
            for A in order:
                cases = []
                for p in by.get(A, []):
                    for sp in splits(p.rhs, i, j):
                        conds = []
                        ok = True
                        for sym, (lo, hi) in zip(p.rhs, sp):
                            if is_term(sym):
                                conds.append(tok_is(sym, lo))
                            else:
                                d = D[sym].get((lo, hi))
                                if d is None:
                                    ok = False
                                    break
                                conds.append(d)
                        if not ok:
                            continue
                        cond = z3.And(conds) if len(conds) > 1 else (conds[0] if conds else z3.BoolVal(True))
                        val = build_value(p, sp, srt, rec_of, kinds, I, NONE_SLOT, M, (i, j))
                        if val is None:
                            continue
                        cases.append((cond, val))
                if not cases:
                    continue
                d = z3.Bool(f"{tag}D_{A}_{i}_{j}")
                s.add(d == z3.Or([c for c, _ in cases]))
                D[A][(i, j)] = d
                kind = z3.Int(f"{tag}K_{A}_{i}_{j}")
                cnt = z3.Int(f"{tag}N_{A}_{i}_{j}")
                slots = [(z3.Int(f"{tag}L{r}_{A}_{i}_{j}"), z3.Int(f"{tag}H{r}_{A}_{i}_{j}"), z3.Int(f"{tag}Y{r}_{A}_{i}_{j}"))
                         for r in range(M)]
                self_lo = z3.Int(f"{tag}SL_{A}_{i}_{j}")
                self_hi = z3.Int(f"{tag}SH_{A}_{i}_{j}")
                for cond, (vk, vc, vs, (vsl, vsh)) in cases:
                    eqs = [kind == vk, cnt == vc, self_lo == vsl, self_hi == vsh]
                    for r in range(M):
                        eqs += [slots[r][0] == vs[r][0], slots[r][1] == vs[r][1], slots[r][2] == vs[r][2]]
                    s.add(z3.Implies(cond, z3.And(eqs)))
                R[A][(i, j)] = (kind, cnt, slots, (self_lo, self_hi))
    e = Encoded()
    e.D, e.R, e.sort, e.order, e.nullable = D, R, srt, order, nul
    return e


def build_value(p, sp, srt, rec_of, kinds, I, NONE_SLOT, M, span):
    """Returns (kind_expr, cnt_expr, [slot exprs]*M, self span) for production p with split sp, or None if it cannot apply.
    A sub-expression slot holds the CANONICAL span of the child (its own span, looking through pass-through productions such as
    parentheses or wrapper nonterminals), so two grammars that wrap children differently still agree on the child spans."""
    own = (I(span[0]), I(span[1]))

    def canon(pos):
        r = rec_of(p.rhs[pos], sp[pos])
        if r is None:
            return None
        return r[3]
    act = p.action
    k = act[0]

    def pad(slots):
        return slots + [NONE_SLOT] * (M - len(slots))

    def elems_of(pos):
        r = rec_of(p.rhs[pos], sp[pos])
        if r is None:
            return None
        return r  # (kind, cnt, slots)

    def item_slot(pos):
        sym = p.rhs[pos]
        if srt.get(sym) == "pair":
            r = rec_of(sym, sp[pos])
            if r is None:
                return None
            return r[2][0]
        c = canon(pos)
        if c is None:
            return None
        return (c[0], c[1], I(-1))

    if k == "pass":
        r = rec_of(p.rhs[act[1]], sp[act[1]])
        if r is None:
            return None
        return (r[0], r[1], list(r[2]), r[3])
    if k == "leaf":
        lo, _ = sp[act[2]]
        return (I(kinds.id(act[1])), I(1), pad([(I(-1), I(-1), I(lo))]), own)
    if k == "pair":
        klo, _ = sp[act[1]]
        c = canon(act[2])
        if c is None:
            return None
        return (I(kinds.id(PAIR)), I(1), pad([(c[0], c[1], I(klo))]), own)
    if k in ("node", "list"):
        kind = I(kinds.id(act[1] if k == "node" else LIST))
        parts = act[2] if k == "node" else act[1]
        # sequence of fixed slots and variable-length lists
        fixed_prefix = []
        cnt = I(0)
        slots = [NONE_SLOT] * M
        # we build symbolically: position offset is an Int expression
        offset = I(0)
        import z3 as _z
        cur = [NONE_SLOT] * M
        known = 0           # python int offset while only fixed slots were appended
        symbolic = None     # (offset_expr) once a list was appended
        for kind_a, pos in parts:
            if kind_a in ("sub", "tok", "item"):
                if kind_a == "sub":
                    c = canon(pos)
                    if c is None:
                        return None
                    sl = (c[0], c[1], I(-1))
                elif kind_a == "tok":
                    lo, _ = sp[pos]
                    sl = (I(-1), I(-1), I(lo))
                else:
                    sl = item_slot(pos)
                    if sl is None:
                        return None
                if symbolic is None:
                    if known >= M:
                        return None
                    cur[known] = sl
                    known += 1
                else:
                    off = symbolic
                    new = []
                    for r in range(M):
                        new.append(tuple(_z.If(off == r, sl[c], cur[r][c]) for c in range(3)))
                    cur = new
                    symbolic = off + 1
            elif kind_a == "elems":
                rec = elems_of(pos)
                if rec is None:
                    return None
                ecnt, eslots = rec[1], rec[2]
                off = I(known) if symbolic is None else symbolic
                new = []
                for r in range(M):
                    # slot r takes eslots[r - off] when off <= r < off + ecnt
                    val = cur[r]
                    for q in range(M):
                        val = tuple(_z.If(_z.And(off + q == r, q < ecnt), eslots[q][c], val[c]) for c in range(3))
                    new.append(val)
                cur = new
                symbolic = off + ecnt
            else:
                raise EncodingError(f"unknown action part {kind_a}")
        total = I(known) if symbolic is None else symbolic
        return (kind, total, cur, own)
    raise EncodingError(f"unknown action {act}")


def tree_from_model(m, enc, start, span, render_leaf, kinds, tokens):
    """Rebuild the tree (nested tuples) that `enc` assigns to `start` at `span` under model m."""
    def ev(x):
        return m.eval(x, model_completion=True).as_long()

    def go(sym, sp):
        r = enc.R[sym].get(sp)
        if r is None:
            return ("?", sym, sp)
        kind = kinds.name(ev(r[0]))
        cnt = ev(r[1])
        out = []
        for q in range(min(cnt, len(r[2]))):
            lo, hi, key = ev(r[2][q][0]), ev(r[2][q][1]), ev(r[2][q][2])
            child = go(start if start in enc.R and (lo, hi) in enc.R.get(start, {}) else sym, (lo, hi)) if lo >= 0 else None
            out.append((child, key))
        return (kind, cnt, out)
    return go(start, span)
