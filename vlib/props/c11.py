"""C11 - user-function caching is transparent, per evaluation and per argument (E3: symbolic execution of the MIR)."""
from .. import e3

RULE = ("symbolic execution (z3) of the MIR of the Function arm -> EvalContext::call_function -> RuleSet::call_function -> UserFunctions::call -> "
        "call_function: (a) one call from an ARBITRARY cache (inductive step): hit returns the cached value without invoking, miss invokes exactly once, "
        "only a successful call of a cacheable function adds exactly the binding key(name, argument) -> result, a failure is wrapped with the function "
        "name and remembered nowhere; (b) two calls from an empty cache: the second reuses the first iff same function and same argument (the cache-key "
        "template read from the MIR; its injectivity for identifier names is a string lemma discharged by cvc5 on every run); (c) evaluate_value creates "
        "one empty cache per call. distinct = obligations")


def check(run, only=None):
    e3.run_parts(run, ["dispatcher", "two_calls", "ruleset", "calling_rules"], only=only, kinds=["Function"])
    run.assumptions += ["derived Debug of Value is injective (debug_of is an uninterpreted function with the injectivity instance for the two arguments)",
                        "registered function names are identifiers (established by add_boxed_function: C15)"]
    run.outside_claim += ["more than two calls per evaluation (covered inductively by (a) for one step from an arbitrary cache)",
                          "the text produced by core::fmt for a concrete Value (the key is an uninterpreted function of name and debug rendering)"]
    return run.finish(rule=RULE)


def replay(run, path):
    from ..e3replay import replay_file
    return replay_file(run, path)
