"""C12 - evaluation is deterministic, free of side effects and schedule-independent (E3: symbolic execution of the MIR)."""
from .. import e3

RULE = ("symbolic execution (z3) of the real poll functions (coroutine state machines in the MIR) of every node kind of the evaluator, of "
        "RuleSet::evaluate_value and of UserFunctions::call, with every awaited sub-future (sub-expression, user function) returning Pending an "
        "arbitrary number of times (up to the bound) before completing: for every such poll schedule the evaluation log (which sub-expression / "
        "function is evaluated, how often, in which order) and the result equal the schedule-free specification; the ruleset, its rules and the "
        "input are read-only regions of the executor - any store into them on any path is reported. distinct = obligations")


def check(run, only=None):
    p = 2 if run.tier == "quick" else 3
    e3.run_parts(run, ["dispatcher", "ruleset", "two_calls", "calling_rules", "paths"], only=only, pendings=p, pendings_heavy=2)
    run.extra["bounds"] = {"pending_polls_per_await": {"node kinds and access paths": p, "ruleset loop, two calls, calling rules": 2}}
    run.assumptions += ["a suspended evaluation is resumed by polling the same future again (the contract of Future); wakers are not modelled"]
    run.outside_claim += ["true concurrency (threads): the executor explores poll schedules of ONE evaluation; that evaluations cannot influence each other "
                          "is argued from the absence of writes to shared regions, not from interleaved execution",
                          "dropping a future midway: drop glue is not executed (reval defines no Drop impl and keeps no state outside the future and "
                          "the per-call cache)", "statics / interior mutability introduced in dependencies; a new static or atomic in reval has no "
                          "model and makes the check answer `cannot decide`"]
    return run.finish(rule=RULE)


def replay(run, path):
    from ..e3replay import replay_file
    return replay_file(run, path)
