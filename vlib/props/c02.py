"""C02 - every operator and built-in yields the result its operator table defines (operator layer)."""
from .. import cells



def check(run, only=None):
    from .. import e3
    e3.run_parts(run, ["dispatcher"], only=only)
    run.notes.append("E3 (MIR symbolic execution): composition - every node kind of the real dispatcher hands its sub-results, in order, to the operator function the cells decide, and returns its result (node_* obligations); cross-check that the MIR applies the function the source text names")
    from .. import arms as armslices
    from . import c05
    apre, ahs = armslices.gen(run, run.tier, run.seed, results_only=True)

    def arm_results(run, arms_):
        # composition: each strict arm returns its function's result on the sub-results in field order (see vlib/arms.py)
        out = []
        for h in ahs:
            if "_vals" not in h.name and not h.name.startswith(("arm_If", "arm_Equals", "arm_NotEquals")):
                continue
            if run.tier == "quick" and ("fld1" not in h.body or "_vals" not in h.name):
                continue    # unary and lazy arms: decided under C05 on every run; here only in the thorough tier
            h.spec = cells.Spec("", quick=h.quick)
            h.variant, h.tags = h.meta["node"], ("arm",)
            out.append(h)
        return out + cells.partialeq_cells("c02")
    arms, hs = cells.run_cells(run, "c02", only=only, extra=arm_results, extra_preamble=c05.PREAMBLE + apre)
    run.assumptions += cells.COMMON_ASSUMPTIONS + [
        "Decimal arithmetic / comparison / rounding cells: rust_decimal's operation is replaced by a recorder (which operation, which operands, "
        "which order, result passed through); the *_scale0_real cells run rust_decimal's real code at scale 0 against integer arithmetic",
        "Float `/` and `%`: decided by identities on constrained operands, not bit-exact on all pairs (CBMC's divider/fmod give no verdict)",
    ]
    run.outside_claim += cells.OUTSIDE + ["the `match` dispatch of eval_rec (pattern -> arm) is read from the source; each arm's right-hand side is "
                                          "executed on a verbatim copy (arm_* obligations); and/or, lists, maps, calls are outside"]
    return run.finish(rule="one Kani harness per supported cell of the reference operator table (node kind x operand tag tuple), asserting the "
                           "exact result (value or error class) for every payload; non-trivial = CBMC generated and discharged checks and all "
                           "vacuity covers were satisfiable; distinct = distinct cell ids")


def replay(run, path):
    import json as _json
    if _json.load(open(path)).get("replay", {}).get("engine") == "e3":
        from ..e3replay import replay_file as _rf
        return _rf(run, path)
    from ..replay import replay_file
    from ..kani import Overlay

    def gen():
        arms, hs = cells.cells_for(run, "c02", "thorough")
        return hs + cells.scale0_cells(run, arms, "c02")
    return replay_file(run, path, gen_all=gen, file=cells.EVAL, tag="cells", preamble=cells.PREAMBLE)
