"""C02 - every operator and built-in yields the result its operator table defines (operator layer)."""
from .. import cells



def check(run, only=None):
    arms, hs = cells.run_cells(run, "c02", only=only)
    run.assumptions += cells.COMMON_ASSUMPTIONS + [
        "Decimal arithmetic / comparison / rounding cells: rust_decimal's operation is replaced by a recorder (which operation, which operands, "
        "which order, result passed through); the *_scale0_real cells run rust_decimal's real code at scale 0 against integer arithmetic",
        "Float `/` and `%`: decided by identities on constrained operands, not bit-exact on all pairs (CBMC's divider/fmod give no verdict)",
    ]
    run.outside_claim += cells.OUTSIDE + ["an eval_rec arm rewired to a different function is not decided by the solver"]
    return run.finish(rule="one Kani harness per supported cell of the reference operator table (node kind x operand tag tuple), asserting the "
                           "exact result (value or error class) for every payload; non-trivial = CBMC generated and discharged checks and all "
                           "vacuity covers were satisfiable; distinct = distinct cell ids")


def replay(run, path):
    from ..replay import replay_file
    from ..kani import Overlay

    def gen():
        arms, hs = cells.cells_for(run, "c02", "thorough")
        return hs + cells.scale0_cells(run, arms, "c02")
    return replay_file(run, path, gen_all=gen, file=cells.EVAL, tag="cells", preamble=cells.PREAMBLE)
