"""C15 - no ill-formed or reserved function names (E1: Kani over src/expr/keywords.rs).

Decided here: the identifier predicate and the reserved-word predicate that `with_function(s)` relies on, for every
ASCII name up to 3 bytes, for selected non-ASCII names, and for every reserved word with its near misses.
"""
import re

from ..common import EncodingError
from ..kani import Harness, Overlay, decide, run_kani

FILE = "src/expr/keywords.rs"

# the language's reserved words (statement of C15 / user documentation), independent of the source constant
RESERVED = ["and", "or", "if", "then", "else", "is_some", "is_none", "some", "int", "float", "dec", "true", "false", "none",
            "contains", "in", "to_upper", "to_lower", "uppercase", "lowercase", "starts", "ends", "trim", "round", "floor",
            "fract", "date_time", "datetime", "duration", "year", "month", "week", "day", "hour", "minute", "second", "key", "val"]

PREAMBLE = r"""
    fn ref_ident(b: &[u8]) -> bool {
        if b.is_empty() { return false; }
        let first = b[0] == b'_' || (b[0] >= b'a' && b[0] <= b'z') || (b[0] >= b'A' && b[0] <= b'Z');
        if !first { return false; }
        let mut i = 1;
        while i < b.len() {
            let c = b[i];
            let ok = c == b'_' || (c >= b'a' && c <= b'z') || (c >= b'A' && c <= b'Z') || (c >= b'0' && c <= b'9');
            if !ok { return false; }
            i += 1;
        }
        true
    }
    fn bytes_eq(a: &[u8], b: &[u8]) -> bool {
        if a.len() != b.len() { return false; }
        let mut i = 0; while i < a.len() { if a[i] != b[i] { return false; } i += 1; } true
    }
"""


def rust_bytes(s):
    return "b\"" + "".join(chr(c) if 32 <= c < 127 and chr(c) not in '"\\' else f"\\x{c:02x}" for c in s.encode()) + "\""


def gen(run, tier):
    src = run.read(FILE)
    if "fn is_valid_identifier" not in src or "fn is_reserved_keyword" not in src:
        raise EncodingError("is_valid_identifier / is_reserved_keyword not found in src/expr/keywords.rs")
    lal = run.read("src/reval.lalrpop")
    lexer_words = sorted(set(re.findall(r'^\s*"([a-z_]+)"\s*=>', lal, re.M)))
    hs = []
    # (a) identifier predicate: every ASCII string of length 0..3
    for n in (0, 1, 2, 3):
        decl = "".join(f"let b{i} = inp.u8(); assume(b{i} < 128); " for i in range(n))
        arr = "[" + ", ".join(f"b{i}" for i in range(n)) + "]"
        body = f"""
        {decl}
        let buf: [u8; {n}] = {arr};
        let s = unsafe {{ core::str::from_utf8_unchecked(&buf) }};
        let got = is_valid_identifier(s);
        show("name", &s); show("accepted", &got);
        vcover!(got, "some accepted name");
        assert!(got == ref_ident(&buf));"""
        if n == 0:
            body = body.replace('vcover!(got, "some accepted name");', "")
        hs.append(Harness(f"ident_ascii_len{n}", body, unwind=n + 3, heavy=(n >= 3), mandatory=(n <= 2),
                          meta={"function": "is_valid_identifier", "domain": f"every ASCII string of length {n}",
                                "reference": "first char `_` or letter; rest `_`, letters, digits"}))
    # selected non-ASCII names (unicode-xid's tables are the reference for the character classes)
    samples = [("é", True), ("_é", True), ("aé", True), ("̀", False), ("à", True), ("_̀", True), ("×", False),
               ("a×", False), ("_×", False), ("é×", False), ("日本", True), ("a b", False), ("a-b", False), ("_-", False), ("1a", False)]
    for i, (s, want) in enumerate(samples):
        body = f"""
        let s = unsafe {{ core::str::from_utf8_unchecked({rust_bytes(s)}) }};
        let got = is_valid_identifier(s);
        show("name", &s); show("accepted", &got);
        assert!(got == {str(want).lower()});"""
        hs.append(Harness(f"ident_sample_{i}", body, unwind=14, heavy=True, mandatory=False,
                          meta={"function": "is_valid_identifier", "name": s, "expected": want}))
    # (b) reserved words: each word, each one-byte extension, each truncation, and every short ASCII string
    words = sorted(set(RESERVED) | set(lexer_words))
    for w in words:
        want = "true"   # reserved-list words and every keyword the lexer knows must be refused
        body = f"""
        let s = unsafe {{ core::str::from_utf8_unchecked({rust_bytes(w)}) }};
        assert!(is_reserved_keyword(s) == {want});
        let c = inp.u8(); assume(c < 128);
        let mut ext = [0u8; {len(w) + 1}];
        let w = {rust_bytes(w)};
        let mut i = 0; while i < {len(w)} {{ ext[i] = w[i]; i += 1; }}
        ext[{len(w)}] = c;
        let e = unsafe {{ core::str::from_utf8_unchecked(&ext) }};
        let in_list = {' || '.join(f'bytes_eq(&ext, {rust_bytes(x)})' for x in words if len(x) == len(w) + 1) or 'false'};
        show("extension", &e);
        assert!(is_reserved_keyword(e) == in_list);
        let t = unsafe {{ core::str::from_utf8_unchecked(&w[..{len(w) - 1}]) }};
        assert!(is_reserved_keyword(t) == {str(w[:-1] in words).lower()});"""
        hs.append(Harness(f"reserved_{w}", body, unwind=max(42, len(words) + 4), heavy=True,
                          meta={"function": "is_reserved_keyword", "word": w,
                                "domain": "the word, every one-byte ASCII extension, its truncation"}))
    for n in (1, 2, 3):
        decl = "".join(f"let b{i} = inp.u8(); assume(b{i} < 128); " for i in range(n))
        arr = "[" + ", ".join(f"b{i}" for i in range(n)) + "]"
        inl = " || ".join(f"bytes_eq(&buf, {rust_bytes(x)})" for x in words if len(x) == n) or "false"
        body = f"""
        {decl}
        let buf: [u8; {n}] = {arr};
        let s = unsafe {{ core::str::from_utf8_unchecked(&buf) }};
        show("name", &s);
        assert!(is_reserved_keyword(s) == ({inl}));"""
        hs.append(Harness(f"reserved_ascii_len{n}", body, unwind=max(42, len(words) + 4), heavy=True, mandatory=(n <= 2),
                          meta={"function": "is_reserved_keyword", "domain": f"every ASCII string of length {n}"}))
    return hs


RULE = ("Kani harnesses over the two predicates with_function relies on: is_valid_identifier against an independent reference for every ASCII "
        "string of length 0-3 (plus selected non-ASCII names), is_reserved_keyword for every reserved word and lexer keyword, each of their "
        "one-byte extensions and truncations, and every ASCII string of length 1-3; distinct = distinct harness ids")


def check(run, only=None):
    from .. import e3
    e3.run_parts(run, ['builder'], only=only)
    run.notes.append('E3 (MIR symbolic execution): Builder::with_rule / with_rules, add_boxed_function, symbol insert / append as inductive steps from arbitrary builder states')
    hs = gen(run, run.tier)
    if only:
        hs = [h for h in hs if only in h.name]
    ov = Overlay(run, "c15")
    ov.preamble(FILE, PREAMBLE)
    for h in hs:
        ov.add(FILE, h)
    ov.write()
    light = [h for h in hs if not h.heavy]
    heavy = [h for h in hs if h.heavy]
    res = run_kani(run, light, timeout_s=240, tag="light")
    res.update(run_kani(run, heavy, jobs=12, timeout_s=420 if run.tier == "quick" else 2400, tag="heavy"))
    decide(run, hs, res)
    run.functions_encoded.update(["expr::keywords::is_valid_identifier", "expr::keywords::is_reserved_keyword"])
    run.assumptions += ["unicode-xid's XID_Start / XID_Continue tables are the reference for non-ASCII characters",
                        "the reserved-word list of the statement (38 words) plus every alphabetic literal token of the lexer (read from reval.lalrpop on every run)"]
    run.outside_claim += ["duplicate detection for rules (with_rule / with_rules) and functions (add_boxed_function: no CBMC verdict in 25 min), "
                          "symbol overwrite semantics, and invocability through evaluation are NOT decided", "names longer than 3 bytes"]
    return run.finish(rule=RULE)


def replay(run, path):
    import json as _json
    if _json.load(open(path)).get("replay", {}).get("engine") == "e3":
        from ..e3replay import replay_file as _rf
        return _rf(run, path)
    from ..replay import replay_file
    return replay_file(run, path, gen_all=lambda: gen(run, "thorough"), file=FILE, tag="c15", preamble=PREAMBLE)
