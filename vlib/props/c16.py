"""C16 - printing a parsed expression gives text that parses back to the same expression (E2 + E1 for strings)."""
from .. import printsmt, synx

RULE = ("(i) one z3 inductive step per node kind and template instance: with every child an opaque phrase of its own grammar level "
        "(symbolic over all levels), the Display template extracted from the source derives in the extracted grammar to exactly that node "
        "with those children; (ii) one z3 query per literal kind and length: every rendering shape is one token of the intended class; "
        "(iii) one z3 query per seam (two rendered pieces touching without white space): no token pattern matches across it. "
        "Counterexamples are instantiated as the smallest concrete expression and round-tripped through the real parser and printer. "
        "distinct = distinct obligation ids")


def check(run, only=None):
    syn = synx.Syntax(run)
    helper = synx.Helper(run)
    pr = printsmt.Printer(run, syn, helper)
    run.extra["display_templates"] = pr.origin
    if not only or "tree" in only or only in pr.templates:
        printsmt.check_trees(run, pr, syn, helper, only=None if (not only or "tree" in only) else only)
    if not only or "leaf" in only:
        printsmt.check_leaves(run, pr, syn, helper, 5 if run.tier == "quick" else 8)
    if not only or "seam" in only:
        printsmt.check_seams(run, pr, syn, helper, 3 if run.tier == "quick" else 4, 2 if run.tier == "quick" else 3)
    if not only or "string" in only:
        from ..kani import Overlay, decide, run_kani
        from .. import parsecells
        shs = printsmt.string_render_harnesses(run.tier) if run.tier == "thorough" else []
        # decoder side of the string round trip on concrete line-ending bodies (raw CR / LF / TAB are printed verbatim)
        upre, uhs = parsecells.gen_unescape(syn, run.tier, mode="c08")
        lits = [h for h in uhs if "literal_raw" in h.name]
        for h in lits:
            h.name = h.name.replace("c08_", "c16_")
            h.cell = h.name
        shs = shs + lits
        ov = Overlay(run, "c16")
        ov.preamble(parsecells.HELPERS, "use crate::value::Value;" + parsecells.PRE_BASE + upre)
        for h in shs:
            ov.add(parsecells.HELPERS, h)
        ov.write()
        res = run_kani(run, shs, jobs=4, timeout_s=2400 if run.tier == "thorough" else 240, tag="strings") if shs else {}

        def unrepro(h, r, logs):
            run.notes.append(f"{h.cell}: the rendering differs from the canonical escaping but round-trips natively")
            run.inconc(h.cell, "non-canonical string rendering that still round-trips", mandatory=False)
            return True
        decide(run, shs, res, on_unreproduced=unrepro)
    run.functions_encoded.update(["impl Display for Expr (templates + parenthesising helper, read from the source)",
                                  "src/reval.lalrpop grammar and lexer", "impl Display for Value (literal prefixes and quoting shapes)"])
    run.assumptions += ["lalrpop builds the parser for the grammar text; the grammar is unambiguous (LALR(1))",
                        "core::fmt / rust_decimal print numbers in the shapes `-?digits(.digits)?` (inf for infinities) and "
                        "from_str(to_string(x)) == x for finite numbers (dependency contracts, trusted)",
                        "lists and maps are checked with 0, 1 and 2 items",
                        "names are printed verbatim and were produced by the lexer as IDENT tokens"]
    run.outside_claim += ["digit-level fidelity of number rendering", "Value::Vec / Value::Map / DateTime / Duration literals (the parser cannot produce them)"]
    return run.finish(rule=RULE)


def replay(run, path):
    import json
    rec = json.load(open(path))
    rp = rec["replay"]
    if "harness" in rp:
        from ..replay import replay_file
        from .. import parsecells
        syn = synx.Syntax(run)
        upre, uhs = parsecells.gen_unescape(syn, "thorough", mode="c08")
        lits = [h for h in uhs if "literal_raw" in h.name]
        for h in lits:
            h.name = h.name.replace("c08_", "c16_")
        allh = printsmt.string_render_harnesses("thorough") + lits
        return replay_file(run, path, gen_all=lambda: allh, file=parsecells.HELPERS, tag="c16",
                           preamble="use crate::value::Value;" + parsecells.PRE_BASE + upre)
    helper = synx.Helper(run)
    res = helper.call("roundtrip", [rp["text"]])[0]
    print(f"replay: {rp['text']!r} -> {res}")
    if res.startswith("DIFF") or res.startswith("PANIC"):
        print(f"VIOLATION property=C16 replay={path}")
        return 1
    return 0
