from .. import cells

RULE = ("one Kani harness per (node kind, ordered pair of non-None operand tags) outside the operator table's supported set: the result "
        "must be Err(InvalidType) for every payload. Quick runs all Int/Float/Decimal mixes, all unary cells and a seed-rotated quarter of "
        "the remaining pairs; thorough runs all. distinct = distinct cell ids")


def check(run, only=None):
    arms, hs = cells.run_cells(run, "c03", only=only)
    run.assumptions += cells.COMMON_ASSUMPTIONS
    run.outside_claim += cells.OUTSIDE
    return run.finish(rule=RULE)


def replay(run, path):
    from ..replay import replay_file

    def gen():
        arms, hs = cells.cells_for(run, "c03", "thorough")
        if "c03" == "c01":
            hs += cells.scale0_cells(run, arms, "c03")
        return hs
    return replay_file(run, path, gen_all=gen, file=cells.EVAL, tag="cells", preamble=cells.PREAMBLE)
