from .. import cells

RULE = ("one Kani harness per (node kind, ordered pair of non-None operand tags) outside the operator table's supported set: the result "
        "must be Err(InvalidType) for every payload. Quick runs all Int/Float/Decimal mixes, all unary cells and a seed-rotated quarter of "
        "the remaining pairs; thorough runs all. distinct = distinct cell ids")


def check(run, only=None):
    from .. import e3
    e3.run_parts(run, ['dispatcher'], only=only, kinds=["If", "And", "Or", "Equals", "NotEquals"])
    run.notes.append('E3 (MIR symbolic execution): if / and / or reject every non-boolean condition or operand with the type error; == / != between values of different types is false / true (node_* obligations)')
    from . import c05

    def lazy_eq(run, arms):
        # equality between values of different types is false (values that would coincide after coercion): decided on the real equality helper with the eval_rec oracle (see C05)
        from ..common import EncodingError
        try:
            allh = c05.gen(run, run.tier)
        except EncodingError as e:
            # == / != implemented by strict functions of two values: decided by the strict-equality cells instead
            run.notes.append(f"lazy equality harnesses not applicable: {e}")
            return []
        hs = [h for h in allh if (lambda h: h.name.startswith(('eq_', 'neq_')) and any(x in h.name for x in ('str1', 'dec', 'float')))(h)]
        for h in hs:
            h.spec = cells.Spec("", quick=True)
            h.variant, h.tags = "Equals", ("lazy",)
        return hs + cells.partialeq_cells("c03")
    arms, hs = cells.run_cells(run, "c03", only=only, extra=lazy_eq, extra_preamble=c05.PREAMBLE)
    run.assumptions += cells.COMMON_ASSUMPTIONS
    run.outside_claim += cells.OUTSIDE
    return run.finish(rule=RULE)


def replay(run, path):
    import json as _json
    if _json.load(open(path)).get("replay", {}).get("engine") == "e3":
        from ..e3replay import replay_file as _rf
        return _rf(run, path)
    from ..replay import replay_file

    def gen():
        arms, hs = cells.cells_for(run, "c03", "thorough")
        if "c03" == "c01":
            hs += cells.scale0_cells(run, arms, "c03")
        return hs
    return replay_file(run, path, gen_all=gen, file=cells.EVAL, tag="cells", preamble=cells.PREAMBLE)
