"""C17 - conversions between Value and Rust types are lossless or fail.

Engine E1 (Kani/CBMC): one harness per conversion and per (target, source tag); payloads symbolic over the
whole type.  Harnesses live in a cfg(kani) child module appended to src/value/convert.rs of the snapshot and
call the public `From` / `TryFrom` impls.
"""
from ..common import EncodingError
from ..kani import Harness, Overlay, decide, run_kani
from ..rustgen import BT, TAGS, Sym

FILE = "src/value/convert.rs"

INT_TARGETS = ["i8", "i16", "i32", "i64", "u8", "u16", "u32", "u64", "u128"]
INT_SOURCES = ["i8", "i16", "i32", "i64", "i128", "u8", "u16", "u32", "u64", "usize"]

# target type -> (tag it accepts, expression extracting + comparing)
SCALAR_TARGETS = {
    "i128": "Int", "f64": "Float", "Decimal": "Decimal", "bool": "Bool",
    "DateTime<Utc>": "DateTime", "TimeDelta": "Duration", "String": "String",
}


def ident(t):
    return t.replace("<", "_").replace(">", "").replace(",", "_").replace(" ", "").replace("::", "_")


def gen(run, tier):
    src = run.read(FILE)
    hs = []
    # ---- 1. narrowing extraction: exactly the in-range values succeed, with the exact value
    for t in INT_TARGETS:
        body = f"""
        let v = inp.i128();
        let r = <{t} as TryFrom<Value>>::try_from(Value::Int(v));
        show("input", &v); show("result", &r);
        let lo = <{t}>::MIN as i128;
        let in_range = if {str(t == 'u128').lower()} {{ v >= 0 }} else {{ v >= lo && v <= (<{t}>::MAX as i128) }};
        vcover!(in_range, "in range"); vcover!(!in_range, "out of range");
        if in_range {{
            assert!(matches!(&r, Ok(x) if (*x as i128) == v && (*x >= 0) == (v >= 0)));
        }} else {{
            assert!(matches!(&r, Err(Error::NumericOverflow(_))));
        }}
        std::mem::forget(r);"""
        hs.append(Harness(f"narrow_{t}", body, meta={"conversion": f"{t}::try_from(Value::Int(v))", "domain": "every i128"}))
    # ---- 2. widening: From<T> for Value is exact, and the round trip returns the original
    for t in INT_SOURCES:
        back = f"""
        let r = <{t} as TryFrom<Value>>::try_from(val);
        assert!(matches!(&r, Ok(y) if *y == x));
        std::mem::forget(r);""" if (t in INT_TARGETS or t == "i128") else "std::mem::forget(val);"
        body = f"""
        let x = inp.{t}();
        let val = Value::from(x);
        show("input", &x); show("value", &val);
        assert!(matches!(&val, Value::Int(i) if *i == (x as i128) && (*i >= 0) == (x >= 0 as {t})));
        {back}"""
        hs.append(Harness(f"widen_{t}", body, meta={"conversion": f"Value::from(x: {t}) and back", "domain": f"every {t}"}))
    # ---- 3. floats
    hs.append(Harness("float_f32", """
        let x = inp.f32();
        let val = Value::from(x);
        show("input", &x); show("value", &val);
        assert!(matches!(&val, Value::Float(f) if same_f64(*f, x as f64)));
        // f32 -> f64 is exact: converting back gives the original bits
        assert!(matches!(&val, Value::Float(f) if same_f32(*f as f32, x)));
        std::mem::forget(val);""", meta={"conversion": "Value::from(x: f32)", "domain": "every f32 bit pattern"}))
    # ---- 4. same-kind round trips
    for t, tag in SCALAR_TARGETS.items():
        if tag == "String":
            continue
        s = Sym(tag, "x")
        cmp = {"Int": "*y == x", "Float": "same_f64(*y, x)", "Decimal": "same_dec(y, &x)", "Bool": "*y == x",
               "DateTime": "*y == x", "Duration": "*y == x"}[tag]
        body = f"""
        {s.decl}
        let val = Value::from(x);
        show("input", &x); show("value", &val);
        assert!({s.same('&val')});
        let r = <{t} as TryFrom<Value>>::try_from(val);
        show("back", &r);
        assert!(matches!(&r, Ok(y) if {cmp}));
        std::mem::forget(r);"""
        hs.append(Harness(f"roundtrip_{ident(t)}", body, meta={"conversion": f"{t} -> Value -> {t}", "domain": s.descr}))
    # ---- 5. wrong kind: type error carrying the very same value
    targets = dict(SCALAR_TARGETS)
    for t in INT_TARGETS:
        targets[t] = "Int"
    targets[f"{BT}<String, Value>"] = "Map"
    targets["Vec<i64>"] = "Vec"
    targets[f"{BT}<String, i64>"] = "Map"
    pairs = []
    for t, ok_tag in targets.items():
        for tag in TAGS:
            if tag == ok_tag:
                continue
            pairs.append((t, tag))
    if tier == "quick":
        # every target against every scalar source; container sources once per target family
        keep = []
        for t, tag in pairs:
            if tag in ("String", "Vec", "Map") and t in INT_TARGETS and t not in ("i64", "u128"):
                continue
            keep.append((t, tag))
        pairs = keep
    for t, tag in pairs:
        s = Sym(tag, "x")
        body = f"""
        {s.decl}
        let r = <{t} as TryFrom<Value>>::try_from({s.value});
        show("result", &r);
        assert!(matches!(&r, Err(Error::UnexpectedValueType(v, _)) if {s.same('v')}));
        std::mem::forget(r);"""
        hs.append(Harness(f"wrongkind_{ident(t)}_from_{tag}", body, mandatory=not ("Vec<" in t or "BTreeMap" in t),
                          meta={"conversion": f"{t}::try_from(Value::{tag})", "domain": s.descr}))
    # ---- 6. Option<Value>
    hs.append(Harness("option_value", """
        let x = inp.i128(); let some = inp.bool();
        let o = if some { Some(Value::Int(x)) } else { None };
        let v = Value::from(o);
        vcover!(some, "some"); vcover!(!some, "none");
        if some { assert!(matches!(&v, Value::Int(y) if *y == x)); } else { assert!(matches!(&v, Value::None)); }
        std::mem::forget(v);""", meta={"conversion": "Value::from(Option<Value>)", "domain": "None / Some(Int(every i128))"}))
    return hs


def gen_containers(run, tier):
    """Container conversions: built with fixed small shapes and symbolic contents; results are forgotten,
    never dropped (container drop glue is what CBMC cannot unwind)."""
    hs = []
    # String round trip, 0..2 ASCII bytes
    for n in (0, 1, 2):
        decl = "".join(f"let b{i} = inp.u8(); assume(b{i} < 128);\n        " for i in range(n))
        push = "".join(f"s.push(b{i} as char); " for i in range(n))
        cmp = " && ".join([f"y.len() == {n}"] + [f"y.as_bytes()[{i}] == b{i}" for i in range(n)])
        body = f"""
        {decl}let mut s = String::new(); {push}
        let val = Value::from(s);
        assert!(matches!(&val, Value::String(y) if {cmp}));
        let r = <String as TryFrom<Value>>::try_from(val);
        assert!(matches!(&r, Ok(y) if {cmp}));
        std::mem::forget(r);"""
        hs.append(Harness(f"string_roundtrip_len{n}", body, unwind=n + 3, mandatory=False, heavy=True,
                          meta={"conversion": "String -> Value -> String", "domain": f"every ASCII string of length {n}"}))
    # Vec<i64>: element-wise, succeeds iff every element converts; non-convertible element at each position
    for n in (1, 2):
        decl = "".join(f"let e{i} = inp.i128();\n        " for i in range(n))
        items = ", ".join(f"Value::Int(e{i})" for i in range(n))
        allok = " && ".join(f"(e{i} >= i64::MIN as i128 && e{i} <= i64::MAX as i128)" for i in range(n))
        eq = " && ".join([f"y.len() == {n}"] + [f"(y[{i}] as i128) == e{i}" for i in range(n)])
        body = f"""
        {decl}let val = Value::Vec(vec![{items}]);
        let r = <Vec<i64> as TryFrom<Value>>::try_from(val);
        let allok = {allok};
        vcover!(allok, "all convert"); vcover!(!allok, "some element does not convert");
        if allok {{ assert!(matches!(&r, Ok(y) if {eq})); }} else {{ assert!(matches!(&r, Err(Error::NumericOverflow(_)))); }}
        std::mem::forget(r);"""
        hs.append(Harness(f"vec_i64_len{n}", body, unwind=n + 3, mandatory=False, heavy=True,
                          meta={"conversion": "Vec<i64>::try_from(Value::Vec([Int..]))",
                                "domain": f"{n} element(s), each every i128 (so a non-convertible element at every position)"}))
    # Vec<i64> with a wrong-kind element
    body = """
        let e0 = inp.i128(); let f = inp.f64(); let first = inp.bool();
        let val = if first { Value::Vec(vec![Value::Float(f), Value::Int(e0)]) } else { Value::Vec(vec![Value::Int(e0), Value::Float(f)]) };
        let r = <Vec<i64> as TryFrom<Value>>::try_from(val);
        assert!(r.is_err());
        std::mem::forget(r);"""
    hs.append(Harness("vec_i64_wrongkind_elem", body, unwind=5, mandatory=False, heavy=True,
                      meta={"conversion": "Vec<i64>::try_from(Value::Vec) with a Float element at position 0 or 1",
                            "domain": "every i128 / f64"}))
    # BTreeMap<String, i64> with one entry
    for kind in ("btree", "value"):
        if kind == "btree":
            body = f"""
        let e0 = inp.i128();
        let mut m = {BT}::new(); m.insert(String::from("k"), Value::Int(e0));
        let r = <{BT}<String, i64> as TryFrom<Value>>::try_from(Value::Map(m));
        let ok = e0 >= i64::MIN as i128 && e0 <= i64::MAX as i128;
        vcover!(ok, "converts"); vcover!(!ok, "does not convert");
        if ok {{ assert!(matches!(&r, Ok(y) if y.len() == 1 && matches!(y.get("k"), Some(z) if (*z as i128) == e0))); }}
        else {{ assert!(matches!(&r, Err(Error::NumericOverflow(_)))); }}
        std::mem::forget(r);"""
            hs.append(Harness("btreemap_i64_1entry", body, unwind=4, mandatory=False, heavy=True,
                              meta={"conversion": "BTreeMap<String,i64>::try_from(Value::Map{k: Int})", "domain": "every i128"}))
        else:
            body = f"""
        let e0 = inp.i128();
        let mut m = {BT}::new(); m.insert(String::from("k"), e0 as i64);
        let v = Value::from(m);
        assert!(matches!(&v, Value::Map(y) if y.len() == 1 && matches!(y.get("k"), Some(Value::Int(z)) if *z == (e0 as i64) as i128)));
        std::mem::forget(v);"""
            hs.append(Harness("value_from_btreemap_1entry", body, unwind=4, mandatory=False, heavy=True,
                              meta={"conversion": "Value::from(BTreeMap<&str->String, i64>)", "domain": "every i64"}))
    return hs


def check(run, only=None):
    from .. import e3
    e3.run_parts(run, ["conversions"], only=only)
    run.notes.append("E3 (MIR symbolic execution): the generic list / map impls (Vec<V>, BTreeMap<String,V>, HashMap<String,V> from a Value; Vec<V> into a Value) with the element conversion an arbitrary deterministic partial function")
    tier = run.tier
    ov = Overlay(run, "c17")
    hs = gen(run, tier)
    ext = gen_containers(run, tier)
    if only:
        hs = [h for h in hs if only in h.name]
        ext = [h for h in ext if only in h.name]
    for h in hs + ext:
        ov.add(FILE, h)
    ov.write()
    res = run_kani(run, hs, timeout_s=240 if tier == "quick" else 900, tag="core")
    decide(run, hs, res)
    if ext:
        res2 = run_kani(run, ext, jobs=4, timeout_s=180 if tier == "quick" else 1500, tag="ext", mem_gb=None)
        decide(run, ext, res2)
    run.functions_encoded.update(["impl From<T> for Value (i8..i128,u8..u64,usize,f32,f64,bool,Decimal,DateTime,TimeDelta,String,Option<Value>,Vec,BTreeMap)",
                                  "impl TryFrom<Value> for T (i8..i128,u8..u128,f64,bool,Decimal,DateTime,TimeDelta,String,Vec<V>,BTreeMap<String,V>)"])
    run.assumptions += [
        "Kani 0.68 / CBMC 6.11 model of rustc MIR (dev profile, overflow checks on); counterexamples replayed natively in dev and release",
        "container sources appear with fixed tiny shapes (empty string/list/map) in wrong-kind cells: the conversion code depends on the tag only",
        "DateTime values exclude the leap-second representation (nanosecond >= 1e9)",
    ]
    run.outside_claim += ["HashMap conversions (RandomState/SipHash)", "strings longer than 2 bytes, lists longer than 2, maps with more than 1 entry",
                          "container harnesses are extensions: a timeout there is listed as inconclusive, not as a pass"]
    return run.finish(rule="one Kani harness per conversion (narrowing per target over every i128; widening per source over the whole "
                           "source type; same-kind round trips; every (target, wrong source tag) pair; option; small containers). "
                           "An obligation is non-trivial when CBMC generated and discharged its checks and every vacuity cover was satisfiable; "
                           "distinct = distinct harness ids.")


def replay(run, path):
    import json as _json
    _rec = _json.load(open(path))
    if _rec.get("replay", {}).get("engine") == "e3-convert":
        from ..synx import Helper
        _rp = _rec["replay"]
        _line = Helper(run).call("convert", [_rp["request"]])[0]
        _obs = _json.loads(_line[3:]) if _line.startswith("OK ") else {"panic": _line}
        _exp = _rp["expected"]
        _ok = any(_json.dumps(_obs.get("err"), sort_keys=True) == _json.dumps(x, sort_keys=True) for x in _exp["err_any_of"]) if "err_any_of" in _exp else _json.dumps(_obs, sort_keys=True) == _json.dumps(_exp, sort_keys=True)
        if not _ok:
            print(f"VIOLATION property=C17 replay={path}")
            print(f"  cell={_rec['cell']} class={_rec['class']}: {_json.dumps(_obs)} but the specification gives {_json.dumps(_exp)}")
            return 1
        print(f"replay {path}: behaves as specified on the current tree")
        return 0
    from ..replay import replay_file
    return replay_file(run, path, gen_all=lambda: gen(run, "thorough") + gen_containers(run, "thorough"), file=FILE, tag="c17")
