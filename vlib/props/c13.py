"""C13 - serialising input data into a Value is total and faithful (E1: Kani over src/value/ser.rs)."""
from ..kani import Harness, Overlay, decide, run_kani

FILE = "src/value/ser.rs"
BT = "std::collections::BTreeMap"

PREAMBLE = r"""
    use serde::Serialize;
    // the statement only requires "an error" for unsupported keys / out-of-range integers / failing Serialize impls
    fn is_ser_err<T>(r: &Result<T>) -> bool { r.is_err() }
    fn str_is(v: &Value, bytes: &[u8]) -> bool {
        match v { Value::String(s) => { let b = s.as_bytes(); if b.len() != bytes.len() { return false; } let mut i = 0; while i < bytes.len() { if b[i] != bytes[i] { return false; } i += 1; } true } _ => false }
    }
    #[derive(Serialize)] struct Unit;
    #[derive(Serialize)] struct Newtype(i64);
    #[derive(Serialize)] struct Pair(u8, bool);
    #[derive(Serialize)] struct One { a: u16 }
    #[derive(Serialize)] struct Two { a: u16, b: Option<i32> }
    #[derive(Serialize)] enum En { Unit, New(i32), Tup(u8, i8), Rec { x: u32 } }
    struct Failing;
    impl Serialize for Failing {
        fn serialize<S: serde::Serializer>(&self, _s: S) -> core::result::Result<S::Ok, S::Error> {
            Err(<S::Error as serde::ser::Error>::custom("boom"))
        }
    }
    struct BadKeyMap<K: Serialize + Copy>(K);
    impl<K: Serialize + Copy> Serialize for BadKeyMap<K> {
        fn serialize<S: serde::Serializer>(&self, s: S) -> core::result::Result<S::Ok, S::Error> {
            use serde::ser::SerializeMap;
            let mut m = s.serialize_map(Some(1))?;
            m.serialize_entry(&self.0, &1u8)?;
            m.end()
        }
    }
"""


def gen(tier):
    hs = []

    def add(name, body, unwind=2, heavy=False, mandatory=True, meta=None):
        hs.append(Harness(name, body, unwind=unwind, heavy=heavy, mandatory=mandatory, meta=meta or {}))

    for t in ["i8", "i16", "i32", "i64", "i128", "u8", "u16", "u32", "u64"]:
        add(f"int_{t}", f"""
        let x = inp.{t}();
        let r = x.serialize(ValueSerializer);
        show("input", &x); show("result", &r);
        assert!(matches!(&r, Ok(Value::Int(i)) if *i == x as i128 && (*i >= 0) == (x >= 0 as {t})));
        std::mem::forget(r);""", meta={"kind": t, "domain": f"every {t}"})
    add("int_u128", """
        let x = inp.u128();
        let r = x.serialize(ValueSerializer);
        show("input", &x); show("result", &r);
        vcover!(x > i128::MAX as u128, "above i128::MAX");
        if x <= i128::MAX as u128 { assert!(matches!(&r, Ok(Value::Int(i)) if *i >= 0 && *i as u128 == x)); }
        else { assert!(is_ser_err(&r)); }
        std::mem::forget(r);""", meta={"kind": "u128", "domain": "every u128"})
    add("float_f64", """
        let x = inp.f64();
        let r = x.serialize(ValueSerializer);
        show("input", &x); show("result", &r);
        assert!(matches!(&r, Ok(Value::Float(f)) if same_f64(*f, x)));
        std::mem::forget(r);""", meta={"kind": "f64", "domain": "every bit pattern"})
    add("float_f32", """
        let x = inp.f32();
        let r = x.serialize(ValueSerializer);
        show("input", &x); show("result", &r);
        assert!(matches!(&r, Ok(Value::Float(f)) if same_f64(*f, x as f64) && same_f32(*f as f32, x)));
        std::mem::forget(r);""", meta={"kind": "f32", "domain": "every bit pattern (widening is exact)"})
    add("human_readable", """
        // serde_json is a human-readable format: types that branch on this flag (IpAddr, SocketAddr, ..) must take the same shape
        assert!(serde::Serializer::is_human_readable(&ValueSerializer));
        assert!(serde::Serializer::is_human_readable(&StringSerializer));""", meta={"kind": "Serializer::is_human_readable (data-model flag shared with serde_json)"})
    add("bool", """
        let x = inp.bool();
        let r = x.serialize(ValueSerializer);
        assert!(matches!(&r, Ok(Value::Bool(b)) if *b == x));
        std::mem::forget(r);""", meta={"kind": "bool"})
    add("unit_and_option", """
        let x = inp.i64(); let some = inp.bool();
        let r0 = ().serialize(ValueSerializer);
        assert!(matches!(&r0, Ok(Value::None)));
        let o: Option<i64> = if some { Some(x) } else { None };
        let r = o.serialize(ValueSerializer);
        show("input", &o); show("result", &r);
        vcover!(some, "some"); vcover!(!some, "none");
        if some { assert!(matches!(&r, Ok(Value::Int(i)) if *i == x as i128)); } else { assert!(matches!(&r, Ok(Value::None))); }
        std::mem::forget(r); std::mem::forget(r0);""", meta={"kind": "unit, Option<i64>"})
    add("unit_struct_newtype_struct", """
        let x = inp.i64();
        let r0 = Unit.serialize(ValueSerializer);
        assert!(matches!(&r0, Ok(Value::None)));
        let r = Newtype(x).serialize(ValueSerializer);
        show("result", &r);
        assert!(matches!(&r, Ok(Value::Int(i)) if *i == x as i128));
        std::mem::forget(r); std::mem::forget(r0);""", meta={"kind": "unit struct, newtype struct"})
    add("unit_variant", """
        let r = En::Unit.serialize(ValueSerializer);
        show("result", &r);
        assert!(matches!(&r, Ok(v) if str_is(v, b"Unit")));
        std::mem::forget(r);""", unwind=6, meta={"kind": "unit variant -> its name"})
    add("char_ascii", """
        let c = inp.u8(); assume(c < 128);
        let r = (c as char).serialize(ValueSerializer);
        show("result", &r);
        assert!(matches!(&r, Ok(v) if str_is(v, &[c])));
        std::mem::forget(r);""", unwind=4, heavy=True, mandatory=False, meta={"kind": "char", "domain": "every ASCII char"})
    # failing Serialize impl: an error, never a panic
    add("custom_error", """
        let r = Failing.serialize(ValueSerializer);
        show("result", &r);
        assert!(is_ser_err(&r));
        std::mem::forget(r);""", unwind=6, heavy=True, meta={"kind": "Serialize impl failing with S::Error::custom"})
    # non-string map keys
    keys = [("bool", "inp.bool()"), ("i8", "inp.i8()"), ("i16", "inp.i16()"), ("i32", "inp.i32()"), ("i64", "inp.i64()"),
            ("u8", "inp.u8()"), ("u16", "inp.u16()"), ("u32", "inp.u32()"), ("u64", "inp.u64()"), ("f32", "inp.f32()"),
            ("f64", "inp.f64()"), ("unit", "()"), ("option_none", "None::<u8>"), ("option_some", "Some(inp.u8())"),
            ("tuple", "(inp.u8(), inp.u8())")]
    for nm, expr in keys:
        add(f"key_{nm}", f"""
        let k = {expr};
        let r = k.serialize(StringSerializer);
        show("result", &r);
        assert!(is_ser_err(&r));
        std::mem::forget(r);""", unwind=3, meta={"kind": f"map key of kind {nm} -> error"})
    add("key_in_map_u8", """
        let k = inp.u8();
        let r = BadKeyMap(k).serialize(ValueSerializer);
        show("result", &r);
        assert!(is_ser_err(&r));
        std::mem::forget(r);""", unwind=3, heavy=True, mandatory=False, meta={"kind": "map with a u8 key through serialize_map -> error"})
    add("key_str", """
        let r = "k".serialize(StringSerializer);
        assert!(matches!(&r, Ok(s) if s.as_bytes() == b"k"));
        std::mem::forget(r);""", unwind=4, meta={"kind": "string key accepted"})
    # ---- containers (extensions)
    add("str_len2", """
        let b0 = inp.u8(); let b1 = inp.u8(); assume(b0 < 128 && b1 < 128);
        let buf = [b0, b1];
        let s = unsafe { core::str::from_utf8_unchecked(&buf) };
        let r = s.serialize(ValueSerializer);
        assert!(matches!(&r, Ok(v) if str_is(v, &buf)));
        std::mem::forget(r);""", unwind=5, heavy=True, mandatory=False, meta={"kind": "str", "domain": "every 2-byte ASCII string"})
    add("bytes_len2", """
        let b0 = inp.u8(); let b1 = inp.u8();
        let r = serde::Serializer::serialize_bytes(ValueSerializer, &[b0, b1]);
        assert!(matches!(&r, Ok(Value::Vec(v)) if v.len() == 2 && matches!(&v[0], Value::Int(i) if *i == b0 as i128) && matches!(&v[1], Value::Int(i) if *i == b1 as i128)));
        std::mem::forget(r);""", unwind=5, heavy=True, mandatory=False, meta={"kind": "bytes", "domain": "2 bytes, order kept"})
    add("tuple_struct_pair", """
        let a = inp.u8(); let b = inp.bool();
        let r = Pair(a, b).serialize(ValueSerializer);
        show("result", &r);
        assert!(matches!(&r, Ok(Value::Vec(v)) if v.len() == 2 && matches!(&v[0], Value::Int(i) if *i == a as i128) && matches!(&v[1], Value::Bool(x) if *x == b)));
        std::mem::forget(r);""", unwind=5, heavy=True, mandatory=False, meta={"kind": "tuple struct (u8, bool): order kept"})
    add("tuple2", """
        let a = inp.i16(); let b = inp.f64();
        let r = (a, b).serialize(ValueSerializer);
        assert!(matches!(&r, Ok(Value::Vec(v)) if v.len() == 2 && matches!(&v[0], Value::Int(i) if *i == a as i128) && matches!(&v[1], Value::Float(x) if same_f64(*x, b))));
        std::mem::forget(r);""", unwind=5, heavy=True, mandatory=False, meta={"kind": "tuple (i16, f64): order kept"})
    add("struct_one_field", """
        let a = inp.u16();
        let r = One { a }.serialize(ValueSerializer);
        show("result", &r);
        assert!(matches!(&r, Ok(Value::Map(m)) if m.len() == 1 && matches!(m.get("a"), Some(Value::Int(i)) if *i == a as i128)));
        std::mem::forget(r);""", unwind=5, heavy=True, mandatory=False, meta={"kind": "struct with one field"})
    add("struct_two_fields", """
        let a = inp.u16(); let b = inp.i32(); let some = inp.bool();
        let r = Two { a, b: if some { Some(b) } else { None } }.serialize(ValueSerializer);
        assert!(matches!(&r, Ok(Value::Map(m)) if m.len() == 2 && matches!(m.get("a"), Some(Value::Int(i)) if *i == a as i128)
            && (if some { matches!(m.get("b"), Some(Value::Int(i)) if *i == b as i128) } else { matches!(m.get("b"), Some(Value::None)) })));
        std::mem::forget(r);""", unwind=6, heavy=True, mandatory=False, meta={"kind": "struct with two fields (second optional)"})
    add("newtype_variant", """
        let a = inp.i32();
        let r = En::New(a).serialize(ValueSerializer);
        show("result", &r);
        assert!(matches!(&r, Ok(Value::Map(m)) if m.len() == 1 && matches!(m.get("New"), Some(Value::Int(i)) if *i == a as i128)));
        std::mem::forget(r);""", unwind=5, heavy=True, mandatory=False, meta={"kind": "newtype variant tagged by name"})
    add("tuple_variant", """
        let a = inp.u8(); let b = inp.i8();
        let r = En::Tup(a, b).serialize(ValueSerializer);
        assert!(matches!(&r, Ok(Value::Map(m)) if m.len() == 1 && matches!(m.get("Tup"), Some(Value::Vec(v)) if v.len() == 2
            && matches!(&v[0], Value::Int(i) if *i == a as i128) && matches!(&v[1], Value::Int(i) if *i == b as i128))));
        std::mem::forget(r);""", unwind=5, heavy=True, mandatory=False, meta={"kind": "tuple variant tagged by name"})
    add("struct_variant", """
        let x = inp.u32();
        let r = En::Rec { x }.serialize(ValueSerializer);
        assert!(matches!(&r, Ok(Value::Map(m)) if m.len() == 1 && matches!(m.get("Rec"), Some(Value::Map(n)) if n.len() == 1
            && matches!(n.get("x"), Some(Value::Int(i)) if *i == x as i128))));
        std::mem::forget(r);""", unwind=5, heavy=True, mandatory=False, meta={"kind": "struct variant tagged by name"})
    return hs


RULE = ("one Kani harness per kind of the serde data model (12 integer widths over their whole range, f32/f64 bit-exact, bool, char, unit, "
        "option, unit/newtype struct, the four variant shapes, every non-string key kind, a failing Serialize impl, small containers); "
        "non-trivial = checks generated and discharged, covers satisfiable; distinct = distinct harness ids")


def check(run, only=None):
    from .. import e3
    e3.run_parts(run, ["serializer"], only=only)
    run.notes.append("E3 (MIR symbolic execution): the seven container collectors of the serializer driven through serde's protocol with oracle element / key types, 0-3 (4) elements")
    hs = gen(run.tier)
    if only:
        hs = [h for h in hs if only in h.name]
    ov = Overlay(run, "c13")
    ov.preamble(FILE, PREAMBLE)
    for h in hs:
        ov.add(FILE, h)
    ov.write()
    light = [h for h in hs if not h.heavy]
    heavy = [h for h in hs if h.heavy]
    res = run_kani(run, light, timeout_s=120 if run.tier == "quick" else 600, tag="light")
    res.update(run_kani(run, heavy, jobs=8, timeout_s=240 if run.tier == "quick" else 1800, tag="heavy"))
    decide(run, hs, res)
    run.functions_encoded.update(["impl Serializer for ValueSerializer", "impl Serializer for StringSerializer", "SerializeVecValue",
                                  "SerializeMapValue", "SerializeTupleVariantValue", "SerializeStructVariantValue", "impl serde::ser::Error for Error"])
    run.assumptions += ["Kani 0.68 / CBMC 6.11 model of MIR; counterexamples replayed natively (dev + release)",
                        "serde's derive output and blanket impls (Option, tuples, integers) are executed as compiled, not modelled",
                        "the serde_json clause is covered only through the data-model mapping asserted here (serde_json itself is not executed)"]
    run.outside_claim += ["containers with more than 2 elements / fields, nested containers, strings longer than 2 bytes, non-ASCII chars",
                          "Serialize impls that violate serde's protocol (serialize_value before serialize_key)",
                          "container harnesses are extensions: a timeout there is listed inconclusive, not a pass"]
    return run.finish(rule=RULE)


def replay(run, path):
    import json as _json
    _rec = _json.load(open(path))
    if _rec.get("replay", {}).get("engine") == "e3-serialize":
        from ..synx import Helper
        _rp = _rec["replay"]
        _line = Helper(run).call("serialize", [_rp["request"]])[0]
        _obs = _json.loads(_line[3:]) if _line.startswith("OK ") else {"panic": _line}
        if _json.dumps(_obs, sort_keys=True) != _json.dumps(_rp["expected"], sort_keys=True):
            print(f"VIOLATION property=C13 replay={path}")
            print(f"  cell={_rec['cell']} class={_rec['class']}: {_json.dumps(_obs)} but the specification gives {_json.dumps(_rp['expected'])}")
            return 1
        print(f"replay {path}: behaves as specified on the current tree")
        return 0
    from ..replay import replay_file
    return replay_file(run, path, gen_all=lambda: gen("thorough"), file=FILE, tag="c13", preamble=PREAMBLE)
