"""C10 - names and access paths resolve to exactly the addressed data (E3: symbolic execution of the MIR)."""
from .. import e3

RULE = ("symbolic execution (z3) of one level of Expr::eval_rec from its MIR for the node kinds Value, Reference, Symbol, Index (field / position) and "
        "Function, with the input, the symbol table, the function registry and the containers as arbitrary uninterpreted maps / lists: the result is "
        "exactly the addressed element (map_at / vec_at of the same key / position), None for a missing key, an out-of-range position or a None base, "
        "the error naming the unknown field / symbol / function, the type error for a scalar or a container of the other kind. distinct = node shapes")

KINDS = ["Value", "Reference", "Symbol", "Index", "Function"]


def check(run, only=None):
    e3.run_parts(run, ["dispatcher", "paths"], only=only, kinds=KINDS)
    run.outside_claim += ["chains of several steps are the composition of single steps (one level of the evaluator per obligation; the base of an index "
                          "is an arbitrary value)", "BTreeMap::get / slice::get are contract models (exact key / position lookup), not executed",
                          "case-sensitivity is the exactness of string equality in BTreeMap<String,_>::get (model)"]
    return run.finish(rule=RULE)


def replay(run, path):
    from ..e3replay import replay_file
    return replay_file(run, path)
