from .. import cells

RULE = ("one Kani harness per supported cell (node kind x operand tags): the real operator function is executed on every payload with "
        "Kani's panic / arithmetic-overflow / cast / index checks on; cast cells additionally assert that an Ok result equals the "
        "mathematical value of the operand (no wrap, saturation or narrowing). Decimal and chrono cells run the dependencies' real code "
        "(Decimal at scale 0). non-trivial = checks generated and discharged, covers satisfiable; distinct = distinct cell ids")


def check(run, only=None):
    arms, hs = cells.run_cells(run, "c01", only=only)
    run.assumptions += cells.COMMON_ASSUMPTIONS
    run.outside_claim += cells.OUTSIDE
    return run.finish(rule=RULE)


def replay(run, path):
    from ..replay import replay_file

    def gen():
        arms, hs = cells.cells_for(run, "c01", "thorough")
        if "c01" == "c01":
            hs += cells.scale0_cells(run, arms, "c01")
        return hs
    return replay_file(run, path, gen_all=gen, file=cells.EVAL, tag="cells", preamble=cells.PREAMBLE)
