"""C14 - a rule's metadata items and expression are extracted exactly (grammar part; E2)."""
from .. import synx

RULE = ("for each n up to the bound one z3 query over a symbolic vector of n tokens with start symbol Rule: is there a token string on which "
        "the extracted Rule/MetaItem grammar and the reference `( @ key : expr ; )* expr` differ in acceptance, in the sequence of (key, value "
        "subtree) items or in the expression subtree? Witnesses are parsed by the real Rule::parse. distinct = distinct n")


RULE_FILE = "src/parse/rule.rs"


def builder_harnesses():
    """Kani on the parts of RuleBuilder that CBMC can execute (no Vec<(String, Expr)> traversal): name and description
    precedence between metadata and comment lines, and the missing-name error."""
    from ..kani import Harness
    hs = []
    hs.append(Harness("builder_name_precedence", """
        let has = inp.bool();
        let rb = RuleBuilder { name: if has { Some(String::from("m")) } else { None }, expr: Expr::Value(Value::None), metadata: BTreeMap::new() };
        let rb = rb.set_name("c");
        vcover!(has, "name from metadata"); vcover!(!has, "name from the comment line");
        assert!(matches!(&rb.name, Some(n) if n.as_bytes() == (if has { b"m" } else { b"c" })));
        let r = rb.build();
        show("rule", &r);
        assert!(matches!(&r, Ok(rule) if rule.name().as_bytes() == (if has { b"m" } else { b"c" })));
        std::mem::forget(r);""", unwind=4, meta={"claim": "@name (already set) wins over the first comment line; otherwise the comment line is the name"}))
    hs.append(Harness("builder_missing_name", """
        let rb = RuleBuilder { name: None, expr: Expr::Value(Value::None), metadata: BTreeMap::new() };
        let r = rb.build();
        assert!(matches!(&r, Err(Error::MissingRuleName)));
        std::mem::forget(r);""", unwind=4, meta={"claim": "no name => the missing-name error"}))
    hs.append(Harness("builder_description_from_comment", """
        let rb = RuleBuilder { name: Some(String::from("m")), expr: Expr::Value(Value::None), metadata: BTreeMap::new() };
        let rb = rb.set_description("d");
        assert!(rb.metadata.len() == 1);
        assert!(matches!(rb.metadata.get("description"), Some(Value::String(x)) if x.as_bytes() == b"d"));
        std::mem::forget(rb);""", unwind=14, heavy=True, mandatory=False, meta={"claim": "comment description is stored when @description is absent"}))
    hs.append(Harness("builder_description_precedence", """
        let a = inp.i128();
        let mut m = BTreeMap::new(); m.insert(String::from("description"), Value::Int(a));
        let rb = RuleBuilder { name: Some(String::from("m")), expr: Expr::Value(Value::None), metadata: m };
        let rb = rb.set_description("d");
        assert!(rb.metadata.len() == 1);
        assert!(matches!(rb.metadata.get("description"), Some(Value::Int(x)) if *x == a));
        std::mem::forget(rb);""", unwind=14, heavy=True, mandatory=False, meta={"claim": "@description (even a non-string) wins over comment lines"}))
    return hs


def check(run, only=None):
    from .. import e3
    e3.run_parts(run, ["rulebuilder"], only=only)
    run.notes.append("E3 (MIR symbolic execution): RuleBuilder::parse / flatten / set_name / set_description / build on 0-2 (3) metadata items of every constant / non-constant shape with symbolic keys and values")
    syn = synx.Syntax(run)
    helper = synx.Helper(run)
    n_max = 7 if run.tier == "quick" else 9
    budget = 420 if run.tier == "quick" else 3600
    from ..kani import Overlay, decide, run_kani
    bhs = [h for h in builder_harnesses() if run.tier == "thorough" or h.name != "builder_description_precedence"]
    ov = Overlay(run, "c14")
    for h in bhs:
        ov.add(RULE_FILE, h)
    ov.write()
    res = run_kani(run, bhs, jobs=4, timeout_s=300 if run.tier == "quick" else 1500, tag="builder")
    decide(run, bhs, res)
    reached = synx.equivalence(run, syn, helper, "Rule", n_max, budget)
    run.functions_encoded.update(["src/reval.lalrpop: Rule, MetaItem and every production reachable from them"])
    run.assumptions += ["lalrpop generates a parser for exactly the grammar it is given",
                        "tokens abstracted to one representative lexeme per class; the rule name is supplied by a fixed leading `// n` comment line",
                        f"bounded: token strings of length <= {reached}"]
    run.outside_claim += ["RuleBuilder::parse (traverses Vec<(String, Expr)>: no CBMC verdict in 900 s even for one entry): last-occurrence-wins, "
                          "rejection of non-constant values and of a non-string @name are NOT decided",
                          "comment-line extraction in Rule::parse (needs the regex lexer)"]
    run.extra["bounds"] = {"max_tokens": reached, "alphabet_size": len(syn.alphabet)}
    return run.finish(rule=RULE)


def replay(run, path):
    import json
    rec = json.load(open(path))
    if rec["replay"].get("engine") == "e3-rule":
        from .. import e3
        from ..synx import Helper
        got = Helper(run).call("rule", [rec["replay"]["text"]])[0]
        want = e3.reference_rule(rec["replay"]["text"])
        if e3.norm_rule(got) != e3.norm_rule(want):
            print(f"VIOLATION property=C14 replay={path}")
            print(f"  cell={rec['cell']} class={rec['class']}: {got[:200]} but the statement gives {want[:200]}")
            return 1
        print(f"replay {path}: behaves as specified on the current tree")
        return 0
    if "harness" in rec["replay"]:
        from ..replay import replay_file
        return replay_file(run, path, gen_all=builder_harnesses, file=RULE_FILE, tag="c14")
    return synx.replay_text(run, rec, path)
