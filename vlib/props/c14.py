"""C14 - a rule's metadata items and expression are extracted exactly (grammar part; E2)."""
from .. import synx

RULE = ("for each n up to the bound one z3 query over a symbolic vector of n tokens with start symbol Rule: is there a token string on which "
        "the extracted Rule/MetaItem grammar and the reference `( @ key : expr ; )* expr` differ in acceptance, in the sequence of (key, value "
        "subtree) items or in the expression subtree? Witnesses are parsed by the real Rule::parse. distinct = distinct n")


def check(run, only=None):
    syn = synx.Syntax(run)
    helper = synx.Helper(run)
    n_max = 7 if run.tier == "quick" else 9
    budget = 420 if run.tier == "quick" else 3600
    reached = synx.equivalence(run, syn, helper, "Rule", n_max, budget)
    run.functions_encoded.update(["src/reval.lalrpop: Rule, MetaItem and every production reachable from them"])
    run.assumptions += ["lalrpop generates a parser for exactly the grammar it is given",
                        "tokens abstracted to one representative lexeme per class; the rule name is supplied by a fixed leading `// n` comment line",
                        f"bounded: token strings of length <= {reached}"]
    run.outside_claim += ["name / description precedence, last-occurrence-wins, the missing-name error and comment-line extraction live in "
                          "RuleBuilder and Rule::parse (consume Vec<(String, Expr)> / BTreeMap by value, regex lexer): not decided here"]
    run.extra["bounds"] = {"max_tokens": reached, "alphabet_size": len(syn.alphabet)}
    return run.finish(rule=RULE)


def replay(run, path):
    import json
    return synx.replay_text(run, json.load(open(path)), path)
