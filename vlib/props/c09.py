"""C09 - a ruleset yields one outcome per rule, in order, each isolated from the others (E3: symbolic execution of the MIR)."""
from .. import e3

RULE = ("symbolic execution (z3) of the MIR of RuleSet::evaluate_value (the coroutine's poll function) on a ruleset of k rules whose expressions "
        "are oracles returning an arbitrary value or error after arbitrary Pending polls: the result is Ok(list) with exactly k outcomes, outcome i "
        "referring to rule i and carrying exactly rule i's result; every rule is evaluated exactly once, in order, whatever the other rules return; "
        "every rule sees the ruleset and the input that were passed in and one function cache created empty inside the call. distinct = distinct k")


def check(run, only=None):
    e3.run_parts(run, ["ruleset", "calling_rules"], only=only, pendings=1 if run.tier == "quick" else 2)
    run.outside_claim += ["RuleSet::evaluate(&impl Serialize): the serialize-then-delegate line (generic over the input type) is not executed; the "
                          "serializer itself is C13", "more rules than the bound k", "the expressions' own evaluation (C02-C05, one level at a time)"]
    run.extra["bounds"] = {"rules": "0..3 (quick) / 0..4 (thorough)", "pending_polls_per_await": 1 if run.tier == "quick" else 2}
    return run.finish(rule=RULE)


def replay(run, path):
    from ..e3replay import replay_file
    return replay_file(run, path)
