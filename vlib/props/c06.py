"""C06 - parsing never panics (all user-written parser code; E1 Kani + acceptors compiled from the token regexes)."""
from .. import parsecells, synx
from ..kani import Overlay, decide, run_kani

RULE = ("for every regex token whose text reaches reval's own code (numeric helpers, string unescaping, the list-index action) and every listed "
        "text length: one Kani harness over ALL ASCII texts of that length admitted by the token's regex (acceptor compiled from the regex "
        "text of the source on every run); Kani's panic / unwrap / slice-bound / UTF-8 boundary checks decide. distinct = distinct harness ids")


def check(run, only=None):
    syn = synx.Syntax(run)
    pre, hs = parsecells.gen_nopanic(syn, run.tier)
    upre, uhs = parsecells.gen_unescape(syn, run.tier, mode="c06")
    if only:
        hs = [h for h in hs if only in h.name]
        uhs = [h for h in uhs if only in h.name]
    ov = Overlay(run, "c06")
    ov.preamble(parsecells.HELPERS, pre + upre)
    unipre, unihs = parsecells.gen_unicode(run.tier, False)
    if only:
        unihs = [h for h in unihs if only in h.name]
    ov.preamble(parsecells.UNESCAPE_RS, unipre)
    for h in unihs:
        ov.add(parsecells.UNESCAPE_RS, h)
    for h in hs:
        ov.add(parsecells.HELPERS, h)
    for h in uhs:
        ov.add(parsecells.UNESCAPE, h)
    ov.write()
    allh = hs + uhs + unihs
    light = [h for h in allh if not h.heavy]
    heavy = [h for h in allh if h.heavy]
    res = run_kani(run, light, timeout_s=240 if run.tier == "quick" else 900, tag="light")
    res.update(run_kani(run, heavy, jobs=6, timeout_s=420 if run.tier == "quick" else 2400, tag="heavy"))
    decide(run, allh, res)
    run.functions_encoded.update(["parse::helpers::parse_int_value / parse_hex_int_value / parse_oct_int_value / parse_bin_int_value / "
                                  "parse_float_value / parse_decimal_value / parse_string_literal", "parse::unescape::unescape / parse_unicode",
                                  "grammar action of IndexExpr (verbatim action text)"])
    run.assumptions += ["token texts are ASCII (the regexes admit non-ASCII only inside strings: selected 2-byte characters are added concretely)",
                        "f64::from_str / Decimal::from_str (always) and the integer parsers at lengths >= 20 are replaced by total nondeterministic "
                        "stubs: what is checked there is reval's own slicing and error conversion",
                        "alloc::fmt::format is stubbed (error-message formatting is not the subject)"]
    run.outside_claim += ["totality of the regex lexer (regex-automata lazy DFA) and of lalrpop's table driver (third-party / generated)",
                          "Rule::parse's inline comment-line extraction and RuleBuilder", "string bodies longer than the listed lengths"]
    return run.finish(rule=RULE)


def replay(run, path):
    import json
    from ..replay import replay_file
    syn = synx.Syntax(run)
    pre, hs = parsecells.gen_nopanic(syn, "thorough")
    upre, uhs = parsecells.gen_unescape(syn, "thorough", mode="c06")
    unipre, unihs = parsecells.gen_unicode("thorough", False)
    name = json.load(open(path))["replay"]["harness"]
    if any(h.name == name for h in unihs):
        return replay_file(run, path, gen_all=lambda: unihs, file=parsecells.UNESCAPE_RS, tag="c06", preamble=unipre)
    return replay_file(run, path, gen_all=lambda: hs + uhs, file=parsecells.HELPERS, tag="c06", preamble=pre + upre)
