"""C08 - literals denote what is written; layout and comments are insignificant (E2 lexer equivalence + E1 denotation)."""
from .. import lexsmt, parsecells, synx
from ..kani import Overlay, decide, run_kani

RULE = ("(a) one z3 query per string length n: is there a string of n code points that is one token X under the source's patterns and token Y "
        "(or none) under the reference lexical spec - this decides tokenisation equivalence for all strings of that length, hence keyword vs "
        "identifier, literal shapes and layout insignificance; (b) Kani: numeric helpers against Horner references for all digit strings of the "
        "listed lengths, and recorder harnesses showing the helper passes exactly the text after the prefix to the std / rust_decimal parser; "
        "(c) Kani: string unescaping against a reference decoder. distinct = distinct query / harness ids")


def check(run, only=None):
    syn = synx.Syntax(run)
    helper = synx.Helper(run)
    if not only or "lex" in only:
        n_max = 6 if run.tier == "quick" else 10
        lx, rl, reached = lexsmt.lexer_equivalence(run, syn, helper, n_max, 300 if run.tier == "quick" else 3000)
        run.extra["bounds"] = {"lexer_code_points": reached}
    pre, hs = parsecells.gen_denote(syn, run.tier)
    upre, uhs = parsecells.gen_unescape(syn, run.tier, mode="c08")
    if only:
        hs = [h for h in hs if only in h.name]
        uhs = [h for h in uhs if only in h.name]
    ov = Overlay(run, "c08")
    ov.preamble(parsecells.HELPERS, pre + upre)
    unipre, unihs = parsecells.gen_unicode(run.tier, True)
    if only:
        unihs = [h for h in unihs if only in h.name]
    ov.preamble(parsecells.UNESCAPE_RS, unipre)
    for h in unihs:
        ov.add(parsecells.UNESCAPE_RS, h)
    for h in hs:
        ov.add(parsecells.HELPERS, h)
    for h in uhs:
        ov.add(parsecells.UNESCAPE, h)
    ov.write()
    allh = hs + uhs + unihs
    light = [h for h in allh if not h.heavy]
    heavy = [h for h in allh if h.heavy]
    res = run_kani(run, light, timeout_s=240 if run.tier == "quick" else 900, tag="light")
    res.update(run_kani(run, heavy, jobs=6, timeout_s=420 if run.tier == "quick" else 2400, tag="heavy"))
    decide(run, allh, res)
    run.functions_encoded.update(["src/reval.lalrpop match block: every literal and regex token, skip patterns, priorities",
                                  "parse::helpers::parse_*_value", "parse::unescape::unescape / parse_unicode"])
    run.assumptions += ["lalrpop's built-in matcher semantics (anchored longest match, priority literal > match-block regex > else-block regex, "
                        "skip loop) as read from lalrpop-util/src/lexer.rs; the DFA model is validated against the real matcher on the suite's inputs",
                        "f64::from_str rounds to the nearest double and Decimal::from_str preserves scale (dependency contracts, trusted)",
                        "identifiers are ASCII letters followed by letters, digits, underscores (reference lexical spec)"]
    run.outside_claim += ["digit strings longer than the listed lengths are covered structurally only (pass-through harnesses)",
                          "strings longer than 2 characters; \\u{..} escapes beyond the listed digit counts"]
    return run.finish(rule=RULE)


def replay(run, path):
    import json
    rec = json.load(open(path))
    rp = rec["replay"]
    if rp.get("kind") == "lex":
        syn = synx.Syntax(run)
        helper = synx.Helper(run)
        from .. import lexer, refgrammar
        import os
        lx = lexer.from_grammar(syn.g)
        rl = refgrammar.reference_lexer()
        spec = os.path.join(run.scratch, "lexspec.json")
        json.dump(lx.native_spec(), open(spec, "w"))
        before = len(run.findings)
        lexsmt.confront_lex(run, syn, helper, lx, rl, spec, rp["text"])
        if len(run.findings) > before:
            print(f"replay: {run.findings[-1]['what']}")
            print(f"VIOLATION property=C08 replay={path}")
            return 1
        print(f"replay: {rp['text']!r} tokenises as the reference prescribes")
        return 0
    from ..replay import replay_file
    syn = synx.Syntax(run)
    pre, hs = parsecells.gen_denote(syn, "thorough")
    upre, uhs = parsecells.gen_unescape(syn, "thorough", mode="c08")
    unipre, unihs = parsecells.gen_unicode("thorough", True)
    name = rp["harness"]
    if any(h.name == name for h in unihs):
        return replay_file(run, path, gen_all=lambda: unihs, file=parsecells.UNESCAPE_RS, tag="c08", preamble=unipre)
    return replay_file(run, path, gen_all=lambda: hs + uhs, file=parsecells.HELPERS, tag="c08", preamble=pre + upre)
