"""C05 - conditionals evaluate lazily (E1: Kani on the real `iif` / `eq` with Expr::eval_rec replaced by a logging oracle).

The oracle identifies the sub-expression (harness leaves are Expr::Value(Int(k))), appends k to a log and returns the result
the harness planned for k. The real lazy operator then runs unmodified; asserted for every truth value at once: the exact
log and the result. Native replay builds the equivalent public scenario with a call-logging, non-cacheable user function.
"""
from ..cells import EVAL
from ..common import EncodingError
from ..extract import eval_arms
from ..kani import Harness, Overlay, decide, run_kani

PREAMBLE = r"""
    use std::future::Future;
    use std::pin::Pin;
    use std::task::{Context, Poll, RawWaker, RawWakerVTable, Waker};
    fn noop_raw() -> RawWaker {
        fn clone(_: *const ()) -> RawWaker { noop_raw() }
        fn noop(_: *const ()) {}
        static VT: RawWakerVTable = RawWakerVTable::new(clone, noop, noop, noop);
        RawWaker::new(std::ptr::null(), &VT)
    }
    fn block_on<F: Future>(mut f: F) -> F::Output {
        let waker = unsafe { Waker::from_raw(noop_raw()) };
        let mut cx = Context::from_waker(&waker);
        let mut f = unsafe { Pin::new_unchecked(&mut f) };
        loop { if let Poll::Ready(v) = f.as_mut().poll(&mut cx) { return v; } }
    }
    static mut LOG: [u8; 4] = [255; 4];
    static mut NLOG: usize = 0;
    // plan per leaf id: kind 0 = Bool(PB), 1 = Int(PI), 2 = None, 3 = Err(DivisionByZero), 4 = Float(PF), 5 = empty String,
    // 6 = String "1", 7 = Decimal(PI as i64 at scale 0)
    static mut PK: [u8; 3] = [0; 3];
    static mut PB: [bool; 3] = [false; 3];
    static mut PI: [i128; 3] = [0; 3];
    static mut PF: [f64; 3] = [0.0; 3];
    fn planned(id: usize) -> Result<Value> {
        unsafe {
            match PK[id] {
                0 => Ok(Value::Bool(PB[id])),
                1 => Ok(Value::Int(PI[id])),
                2 => Ok(Value::None),
                3 => Err(Error::DivisionByZero),
                4 => Ok(Value::Float(PF[id])),
                6 => Ok(Value::String(String::from("1"))),
                7 => Ok(Value::Decimal(rust_decimal::Decimal::from_parts(PI[id] as u32, 0, 0, false, 0))),
                _ => Ok(Value::String(String::new())),
            }
        }
    }
    #[cfg(kani)]
    fn oracle_eval_rec<'life0, 'life1, 'async_recursion>(e: &'life0 Expr, _c: &'life1 mut EvalContext<'_>)
        -> Pin<Box<dyn Future<Output = Result<Value>> + Send + 'async_recursion>>
    where 'life0: 'async_recursion, 'life1: 'async_recursion {
        let id = match e { Expr::Value(Value::Int(k)) => *k as usize, _ => 2 };
        unsafe { if NLOG < 4 { LOG[NLOG] = id as u8; } NLOG += 1; }
        let r = planned(id);
        Box::pin(std::future::ready(r))
    }
    fn leaf(k: i128) -> Expr { Expr::Value(Value::Int(k)) }
    trait LazyOut { fn is_bool(&self, b: bool) -> bool; fn is_div0(&self) -> bool; }
    impl LazyOut for Result<bool> {
        fn is_bool(&self, b: bool) -> bool { matches!(self, Ok(x) if *x == b) }
        fn is_div0(&self) -> bool { matches!(self, Err(Error::DivisionByZero)) }
    }
    impl LazyOut for Result<Value> {
        fn is_bool(&self, b: bool) -> bool { matches!(self, Ok(Value::Bool(x)) if *x == b) }
        fn is_div0(&self) -> bool { matches!(self, Err(Error::DivisionByZero)) }
    }
    fn log_is(expect: &[u8]) -> bool {
        // loop-free (the harnesses run at unwind bound 1): at most two entries are ever expected
        unsafe {
            NLOG == expect.len() && (expect.len() < 1 || LOG[0] == expect[0]) && (expect.len() < 2 || LOG[1] == expect[1]) && expect.len() <= 2
        }
    }

    // ---- native replay: the same plan realised through the public API with a logging, non-cacheable user function
    #[cfg(not(kani))]
    mod native {
        use super::*;
        use crate::function::{FunctionResult, UserFunction};
        pub struct Probe;
        #[async_trait::async_trait]
        impl UserFunction for Probe {
            async fn call(&self, p: Value) -> FunctionResult {
                let id = match p { Value::Int(k) => k as usize, _ => 2 };
                unsafe { if NLOG < 4 { LOG[NLOG] = id as u8; } NLOG += 1; }
                planned(id).map_err(|e| anyhow::anyhow!("{e}"))
            }
            fn name(&self) -> &'static str { "probe" }
            fn cacheable(&self) -> bool { false }
        }
        pub fn probe(k: i128) -> Expr { Expr::func("probe", Expr::Value(Value::Int(k))) }
        pub fn run(e: Expr) -> Result<Value> {
            let rs = crate::ruleset::ruleset().with_function(Probe).unwrap()
                .with_rule(crate::ruleset::Rule::new("r", Default::default(), e)).unwrap().build();
            let mut out = block_on(rs.evaluate_value(&Value::None)).unwrap();
            out.remove(0).value
        }
    }
"""

COND_KINDS = [("bool", 0, "Bool"), ("int", 1, "Int"), ("none", 2, "None"), ("err", 3, "Err(DivisionByZero)"), ("float", 4, "Float"),
              ("string", 5, "String")]


def set_plan(kinds):
    s = "unsafe { NLOG = 0; "
    for i, k in enumerate(kinds):
        s += f"PK[{i}] = {k}; PB[{i}] = pb{i}; PI[{i}] = pi{i}; PF[{i}] = pf{i}; "
    return s + "}"


def draw(n):
    return "".join(f"let pb{i} = inp.bool(); let pi{i} = inp.i128(); let pf{i} = inp.f64(); " for i in range(n))


def gen(run, tier):
    arms = eval_arms(run.read(EVAL))
    hs = []
    # -------------------------------------------------------------------- if
    a = arms.get("If")
    if not a or not a["lazy"] or not a["fn"]:
        raise EncodingError("the If arm no longer delegates to a lazy helper taking the unevaluated sub-expressions")
    fn = a["fn"]
    for nm, k, descr in COND_KINDS:
        # branch results: Int (distinguishable payloads) ; one variant with an erroring taken branch
        for bnm, bk in (("ints", (1, 1)), ("errs", (3, 3))) if nm == "bool" else (("ints", (1, 1)),):
            kinds = (k,) + bk
            if nm == "bool":
                exp_log = "if pb0 { log_is(&[0, 1]) } else { log_is(&[0, 2]) }"
                if bk[0] == 1:
                    exp_res = "matches!(&out, Ok(Value::Int(x)) if *x == (if pb0 { pi1 } else { pi2 }))"
                else:
                    exp_res = "matches!(&out, Err(_))"
            elif nm == "err":
                exp_log = "log_is(&[0])"
                exp_res = "matches!(&out, Err(Error::DivisionByZero))"
            else:
                exp_log = "log_is(&[0])"
                exp_res = "matches!(&out, Err(Error::InvalidType))"
            body = f"""
        {draw(3)}
        {set_plan(kinds)}
        let (s, l, r) = (leaf(0), leaf(1), leaf(2));
        let rs = RuleSet::default(); let mut cache = FunctionCache::new(); let facts = Value::None;
        let mut ctx = EvalContext::new(&rs, &mut cache, &facts);
        let out = block_on({fn}(&mut ctx, &s, &l, &r));
        {'vcover!(pb0, "condition true"); vcover!(!pb0, "condition false");' if nm == 'bool' else ''}
        assert!({exp_log});
        assert!({exp_res});
        std::mem::forget(out); std::mem::forget(rs); std::mem::forget(cache); std::mem::forget((s, l, r));"""
            nexp_res = exp_res.replace("Err(Error::DivisionByZero)", "Err(_)")
            native = f"""
        {draw(3)}
        {set_plan(kinds)}
        let e = Expr::iif(native::probe(0), native::probe(1), native::probe(2));
        let out = native::run(e);
        show("condition kind", &"{descr}"); show("pb0", &pb0); show("result", &out);
        show("calls", &unsafe {{ LOG }}); show("ncalls", &unsafe {{ NLOG }});
        assert!({exp_log});
        assert!({nexp_res});"""
            hs.append(Harness(f"if_cond_{nm}_branches_{bnm}", body, unwind=1, stubs=[("Expr::eval_rec", "oracle_eval_rec")], heavy=True,
                              native_body=native, abstract=True,
                              meta={"operator": "if", "function": fn, "condition": descr, "branches": bnm,
                                    "asserted": "exact evaluation log [cond, taken branch] / [cond]; result = taken branch's result"}))
    # -------------------------------------------------------------------- == / != : right operand not evaluated when the left is None
    import re
    for variant, ctor, negated_op in (("Equals", "eq", False), ("NotEquals", "neq", True)):
        e = arms.get(variant)
        if not e or not e["fn"]:
            raise EncodingError(f"{variant} arm not recognised")
        if not e["lazy"]:
            raise EncodingError(f"the {variant} arm evaluates its operands before calling `{e['fn']}`: laziness of == / != cannot be decided "
                                f"by executing a helper (the recursive dispatcher itself is out of CBMC's reach)")
        efn = e["fn"]
        if variant == "NotEquals" and arms["Equals"]["fn"] == efn:
            continue   # same helper as ==: already covered (the arm's negation is inside the dispatcher)
        arm_negates = bool(re.search(r"\|\s*\w+\s*\|\s*(?:Value::Bool\()?\s*!", e["text"]))
        fn_negated = negated_op != arm_negates      # does the helper itself return the negated comparison?
        pairs = [((lk, lname), (rk, rname)) for lk, lname in ((2, "none"), (1, "int"), (0, "bool")) for rk, rname in ((1, "int"), (2, "none"), (3, "err"))]
        # values that would coincide after coercion: different types are simply not equal
        pairs += [((6, "str1"), (7, "dec")), ((7, "dec"), (6, "str1")), ((1, "int"), (4, "float")), ((1, "int"), (7, "dec")), ((6, "str1"), (1, "int"))]
        for (lk, lname), (rk, rname) in pairs:
            if True:
                kinds = (lk, rk)
                if lk == 2:
                    exp_log, val = "log_is(&[0])", "false"
                elif rk == 3:
                    exp_log, val = "log_is(&[0, 1])", None
                else:
                    val = {(1, 1): "pi0 == pi1", (0, 0): "pb0 == pb1"}.get((lk, rk), "false")
                    exp_log = "log_is(&[0, 1])"
                fval = None if val is None else (f"!({val})" if fn_negated else f"({val})")
                exp_res = "out.is_div0()" if val is None else f"out.is_bool({fval})"
                body = f"""
        {draw(2)}
        {set_plan(kinds)}
        let (l, r) = (leaf(0), leaf(1));
        let rs = RuleSet::default(); let mut cache = FunctionCache::new(); let facts = Value::None;
        let mut ctx = EvalContext::new(&rs, &mut cache, &facts);
        let out = block_on({efn}(&mut ctx, &l, &r));
        assert!({exp_log});
        assert!({exp_res});
        std::mem::forget(out); std::mem::forget(rs); std::mem::forget(cache); std::mem::forget((l, r));"""
                opval = None if val is None else (f"!({val})" if negated_op else f"({val})")
                nres = "out.is_err()" if val is None else f"matches!(&out, Ok(Value::Bool(x)) if *x == {opval})"
                native = f"""
        {draw(2)}
        {set_plan(kinds)}
        let out = native::run(Expr::{ctor}(native::probe(0), native::probe(1)));
        show("result", &out); show("calls", &unsafe {{ LOG }}); show("ncalls", &unsafe {{ NLOG }});
        assert!({exp_log});
        assert!({nres});"""
                hs.append(Harness(f"{ctor}_left_{lname}_right_{rname}", body, unwind=1, stubs=[("Expr::eval_rec", "oracle_eval_rec")], heavy=True,
                                  mandatory=True, native_body=native, abstract=True,
                                  meta={"operator": "==" if not negated_op else "!=", "function": efn, "left": lname, "right": rname,
                                        "asserted": "right operand not evaluated when the left is None (== false, != true); otherwise both once, left first"}))
    # -------------------------------------------------------------------- and / or (extension: memory-hungry in CBMC)
    for variant, ctor, short_on in (("And", "and", "false"), ("Or", "or", "true")):
        a2 = arms.get(variant)
        if not a2 or not a2["lazy"] or not a2["fn"]:
            raise EncodingError(f"the {variant} arm no longer delegates to a lazy helper")
        for lk, lname in ((0, "bool"), (1, "int"), (2, "none")):
            kinds = (lk, 0)
            if lk == 0:
                exp_log = f"if pb0 == {short_on} {{ log_is(&[0]) }} else {{ log_is(&[0, 1]) }}"
                res = "pb0 && pb1" if variant == "And" else "pb0 || pb1"
                exp_res = f"matches!(&out, Ok(Value::Bool(x)) if *x == ({res}))"
            else:
                exp_log, exp_res = "log_is(&[0])", "matches!(&out, Err(Error::InvalidType))"
            body = f"""
        {draw(2)}
        {set_plan(kinds)}
        let (l, r) = (leaf(0), leaf(1));
        let rs = RuleSet::default(); let mut cache = FunctionCache::new(); let facts = Value::None;
        let mut ctx = EvalContext::new(&rs, &mut cache, &facts);
        let out = block_on({a2['fn']}(&mut ctx, &l, &r));
        assert!({exp_log});
        assert!({exp_res});
        std::mem::forget(out); std::mem::forget(rs); std::mem::forget(cache); std::mem::forget((l, r));"""
            native = f"""
        {draw(2)}
        {set_plan(kinds)}
        let out = native::run(Expr::{ctor}(native::probe(0), native::probe(1)));
        show("result", &out); show("calls", &unsafe {{ LOG }}); show("ncalls", &unsafe {{ NLOG }});
        assert!({exp_log});
        assert!({exp_res.replace('Err(Error::InvalidType)', 'Err(_)')});"""
            h = Harness(f"{ctor}_left_{lname}", body, unwind=1, stubs=[("Expr::eval_rec", "oracle_eval_rec")], heavy=True,
                        mandatory=False, native_body=native, abstract=True,
                        meta={"operator": ctor, "function": a2["fn"], "left": lname,
                              "asserted": "right operand evaluated only when the left one does not decide; non-boolean left operand is a type error"})
            h.big = True
            hs.append(h)
    return hs


RULE = ("Kani harnesses with Expr::eval_rec replaced by a logging oracle: (a) the real lazy helpers (`if`, the equality helper of == / !=), one "
        "harness per kind of condition / operand result; (b) every strict arm of the dispatcher, its right-hand side copied verbatim into its "
        "own async fn: sub-expressions evaluated once each in field order, the first error ends the evaluation, the result is the arm's "
        "function applied to the sub-results. Each asserts the exact evaluation log and the result. distinct = distinct harness ids")


def check(run, only=None):
    from .. import e3
    e3.run_parts(run, ['dispatcher'], only=only)
    run.notes.append('E3 (MIR symbolic execution): one level of the real dispatcher for every node kind incl. and / or, lists, maps, calls (node_* obligations)')
    from .. import arms
    try:
        hs = gen(run, run.tier)
        apre, ahs = arms.gen(run, run.tier, run.seed)
    except EncodingError as e:
        # the source no longer has a shape the Kani harness generators understand; the MIR-level obligations above do not depend on it
        run.notes.append(f"Kani harnesses not generated: {e}")
        run.inconc("kani-harness-generation", str(e)[:300], mandatory=False)
        run.assumptions += ["Kani part skipped (source shape not understood by the harness generator); decided by the E3 obligations only"]
        return run.finish(rule=RULE)
    if run.tier == "quick":
        ahs = [h for h in ahs if h.quick]
    hs += ahs
    if only:
        hs = [h for h in hs if only in h.name]
    ov = Overlay(run, "c05")
    ov.preamble(EVAL, PREAMBLE + apre)
    for h in hs:
        ov.add(EVAL, h)
    ov.write()
    small = [h for h in hs if not getattr(h, "big", False)]
    big = [h for h in hs if getattr(h, "big", False)]
    res = run_kani(run, small, jobs=10, timeout_s=600 if run.tier == "quick" else 2400, tag="lazy")
    import os
    if big and os.environ.get("VERIF_TRY_ANDOR"):
        # `and` / `or`: measured again in the build phase with the concrete-tag oracle: 46 GB and no verdict in 1500 s.
        # Kept only as an opt-in experiment (VERIF_TRY_ANDOR=1); outside the claim.
        res.update(run_kani(run, big, jobs=1, timeout_s=1500, tag="andor", mem_gb=48))
    else:
        for h in big:
            pass
        big = []
    decide(run, small + big, res)
    run.functions_encoded.update(["expr::eval::iif", "expr::eval::eq", "every strict arm of Expr::eval_rec (right-hand side copied verbatim into its own async fn)"])
    run.assumptions += ["Expr::eval_rec is replaced by an oracle (#[kani::stub]) that logs which sub-expression is evaluated and returns a planned "
                        "result: the lazy helper's own code runs unmodified, the recursive dispatcher does not run",
                        "native replay realises the plan through the public API with a call-logging, non-cacheable user function"]
    run.outside_claim += ["`and` / `or` (four formulations: 37-46 GB, no verdict), lists, maps and call arguments (eval_vec / eval_map / Function arm): NOT decided",
                          "the strict arms are decided one arm at a time on a verbatim copy of the arm's right-hand side; the `match` dispatch itself "
                          "(which pattern selects which arm) is read from the source, not executed"]
    return run.finish(rule=RULE)


def replay(run, path):
    import json as _json
    if _json.load(open(path)).get("replay", {}).get("engine") == "e3":
        from ..e3replay import replay_file as _rf
        return _rf(run, path)
    from ..replay import replay_file
    from .. import arms
    apre, ahs = arms.gen(run, "thorough", 0)
    return replay_file(run, path, gen_all=lambda: gen(run, "thorough") + ahs, file=EVAL, tag="c05", preamble=PREAMBLE + apre)
