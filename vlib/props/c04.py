from .. import cells

RULE = ("one Kani harness per operator cell with None in an operand position x every tag of the other operand: result must be exactly the "
        "statement's (None / false / ordinary collection rule), never an error. distinct = distinct cell ids")


def check(run, only=None):
    arms, hs = cells.run_cells(run, "c04", only=only)
    run.assumptions += cells.COMMON_ASSUMPTIONS
    run.outside_claim += cells.OUTSIDE
    return run.finish(rule=RULE)


def replay(run, path):
    from ..replay import replay_file

    def gen():
        arms, hs = cells.cells_for(run, "c04", "thorough")
        if "c04" == "c01":
            hs += cells.scale0_cells(run, arms, "c04")
        return hs
    return replay_file(run, path, gen_all=gen, file=cells.EVAL, tag="cells", preamble=cells.PREAMBLE)
