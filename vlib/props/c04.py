from .. import cells

RULE = ("one Kani harness per operator cell with None in an operand position x every tag of the other operand: result must be exactly the "
        "statement's (None / false / ordinary collection rule), never an error. distinct = distinct cell ids")


def check(run, only=None):
    from .. import e3
    e3.run_parts(run, ['dispatcher'], only=only, kinds=["If", "And", "Or", "Equals", "NotEquals", "Index"])
    run.notes.append('E3 (MIR symbolic execution): None conditions of if / and / or are type errors; == / != with a None left operand; index into None (node_* obligations)')
    from . import c05

    def lazy_eq(run, arms):
        # equality / inequality with a None operand: decided on the real equality helper with the eval_rec oracle (see C05)
        from ..common import EncodingError
        try:
            allh = c05.gen(run, run.tier)
        except EncodingError as e:
            # == / != implemented by strict functions of two values: decided by the strict-equality cells instead
            run.notes.append(f"lazy equality harnesses not applicable: {e}")
            return []
        hs = [h for h in allh if (lambda h: h.name.startswith(('eq_', 'neq_')) and 'none' in h.name)(h)]
        for h in hs:
            h.spec = cells.Spec("", quick=True)
            h.variant, h.tags = "Equals", ("lazy",)
        return hs
    arms, hs = cells.run_cells(run, "c04", only=only, extra=lazy_eq, extra_preamble=c05.PREAMBLE)
    run.assumptions += cells.COMMON_ASSUMPTIONS
    run.outside_claim += cells.OUTSIDE
    return run.finish(rule=RULE)


def replay(run, path):
    import json as _json
    if _json.load(open(path)).get("replay", {}).get("engine") == "e3":
        from ..e3replay import replay_file as _rf
        return _rf(run, path)
    from ..replay import replay_file

    def gen():
        arms, hs = cells.cells_for(run, "c04", "thorough")
        if "c04" == "c01":
            hs += cells.scale0_cells(run, arms, "c04")
        return hs
    return replay_file(run, path, gen_all=gen, file=cells.EVAL, tag="cells", preamble=cells.PREAMBLE)
