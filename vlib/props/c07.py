"""C07 - text is structured by one fixed precedence/associativity table (E2: z3 over the extracted grammar)."""
from .. import synx

RULE = ("for each n up to the bound one z3 query over a symbolic vector of n tokens (alphabet: every literal token and one symbol per "
        "token class): is there a token string on which the grammar extracted from src/reval.lalrpop and the reference table differ in "
        "acceptance or in the derivation tree? UNSAT = they coincide for all strings of that length. Every SAT witness is parsed by the real "
        "parser before it counts. non-trivial = query encoded and decided; distinct = distinct n")


def check(run, only=None):
    syn = synx.Syntax(run)
    helper = synx.Helper(run)
    n_max = 7 if run.tier == "quick" else 9
    budget = 420 if run.tier == "quick" else 3600
    # constructors used by the grammar actions, on the real code (Kani)
    from .. import ctors
    from ..kani import Overlay, decide, run_kani
    chs = ctors.harnesses(run.tier)
    if only:
        chs = [h for h in chs if only in h.name]
    ov = Overlay(run, "c07")
    for h in chs:
        ov.add(h.file, h)
    ov.write()
    res = run_kani(run, chs, timeout_s=120, tag="ctors")
    decide(run, chs, res)
    reached = synx.equivalence(run, syn, helper, "Expr", n_max, budget)
    run.functions_encoded.update(["src/reval.lalrpop: every production and action reachable from Expr",
                                  "src/expr/mod.rs: Expr constructor -> variant / field order table"])
    run.assumptions += ["lalrpop generates a parser for exactly the grammar it is given and rejects ambiguous (non-LALR(1)) grammars",
                        "tokens are abstracted to one representative lexeme per token class (C08 decides the lexer)",
                        f"bounded: token strings of length <= {reached}; lists/maps with <= 4 items inside that bound",
                        "fallible literal actions (numeric range, escapes) are not part of the token-class level (C06/C08)"]
    run.extra["bounds"] = {"max_tokens": reached, "alphabet_size": len(syn.alphabet)}
    return run.finish(rule=RULE)


def replay(run, path):
    import json
    rec = json.load(open(path))
    rp = rec["replay"]
    if "harness" in rp:
        from .. import ctors
        from ..replay import replay_file
        return replay_file(run, path, gen_all=lambda: ctors.harnesses("thorough"), file=ctors.FILE, tag="c07")
    return synx.replay_text(run, rec, path)
