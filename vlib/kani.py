"""Kani/CBMC engine (E1): overlay assembly, batch runner, counterexample extraction, native replay."""
import json
import os
import re
import time

from .common import EncodingError, NCPU, VERIF, log, run_cmd


def rt_text():
    with open(os.path.join(VERIF, "harness", "rt.rs")) as f:
        return f.read()


class Harness:
    """One proof obligation = one #[kani::proof] function.

    name      unique Rust identifier (also the cell id unless `cell` is given)
    body      Rust statements; may use `inp` (&mut Inp), assume(), vcover!(), show()
    unwind    loop/recursion bound (unwinding assertions stay on)
    stubs     list of (path, replacement) for #[kani::stub]
    heavy     scheduled with few parallel jobs and a memory cap
    mandatory a missing verdict makes the whole check inconclusive (exit 2)
    covers    number of vcover! points that must be satisfiable (vacuity witnesses)
    meta      free-form description (bounds, operands) copied to the evidence
    """

    def __init__(self, name, body, unwind=2, stubs=(), heavy=False, mandatory=True, timeout=None,
                 cell=None, meta=None, items="", native_body=None, abstract=False):
        self.name = name
        self.body = body
        self.unwind = unwind
        self.stubs = list(stubs)
        self.heavy = heavy
        self.mandatory = mandatory
        self.timeout = timeout
        self.cell = cell or name
        self.meta = meta or {}
        self.items = items            # extra module-level Rust items (stub fns, statics) for this harness
        self.native_body = native_body  # body used under verif_replay when the Kani body relies on stubs
        self.abstract = abstract      # harness relies on stubs that abstract real behaviour


class Overlay:
    """Harness modules appended (under cfg) to files of the scratch snapshot."""

    def __init__(self, run, tag):
        self.run = run
        self.tag = tag
        self.mods = {}   # rel file -> list[Harness]
        self.preambles = {}  # rel file -> extra items shared by the module

    def add(self, rel, harness):
        self.mods.setdefault(rel, []).append(harness)

    def preamble(self, rel, text):
        self.preambles[rel] = self.preambles.get(rel, "") + "\n" + text

    def all(self):
        return [h for hs in self.mods.values() for h in hs]

    def write(self):
        run = self.run
        run.append("src/lib.rs",
                   "#[cfg(any(kani, verif_replay))]\n#[allow(warnings)]\npub(crate) mod __verif_rt {\n"
                   + rt_text() + "\n}\n")
        seen = set()
        for rel, hs in self.mods.items():
            parts = [f"#[cfg(any(kani, verif_replay))]\n#[allow(warnings)]\nmod __verif_{self.tag} {{",
                     "    use super::*;", "    use crate::__verif_rt::*;", "    extern crate alloc;",
                     self.preambles.get(rel, "")]
            for h in hs:
                if h.name in seen:
                    raise EncodingError(f"duplicate harness name {h.name}")
                seen.add(h.name)
                parts.append(h.items)
                if h.native_body is not None:
                    parts.append(f"    #[cfg(kani)]\n    fn b_{h.name}(inp: &mut Inp) {{\n{h.body}\n    }}")
                    parts.append(f"    #[cfg(not(kani))]\n    fn b_{h.name}(inp: &mut Inp) {{\n{h.native_body}\n    }}")
                else:
                    parts.append(f"    fn b_{h.name}(inp: &mut Inp) {{\n{h.body}\n    }}")
            parts.append("    #[cfg(kani)]\n    mod proofs {\n        use super::*;")
            for h in hs:
                attrs = "".join(f"        #[kani::stub({a}, {b})]\n" for a, b in h.stubs)
                parts.append(f"        #[kani::proof]\n        #[kani::unwind({h.unwind})]\n{attrs}"
                             f"        fn {h.name}() {{ let mut inp = Inp::new(); b_{h.name}(&mut inp); }}")
            parts.append("    }")
            parts.append("    #[cfg(all(test, verif_replay))]\n    mod replays {\n        use super::*;")
            for h in hs:
                parts.append(f"        #[test]\n        fn {h.name}() {{ let mut inp = Inp::new(); b_{h.name}(&mut inp); }}")
            parts.append("    }\n}")
            run.append(rel, "\n".join(parts))


IGNORED_CHECK_RE = re.compile(r"^NaN on ")


def classify(check):
    d = check.get("description", "")
    st = check.get("status", "")
    if "unwinding assertion" in d or "recursion unwinding" in d:
        return "unwind"
    if IGNORED_CHECK_RE.match(d):
        return "nan"
    return "check"


class KaniResult:
    def __init__(self, name):
        self.name = name
        self.status = "missing"   # pass | fail | unwind | timeout | error | missing | vacuous
        self.failed = []          # failing checks (description, function, file:line)
        self.time_s = 0.0
        self.covers_sat = 0
        self.covers_unsat = 0
        self.nchecks = 0
        self.stats = {}
        self.detail = ""
        self.full_id = None


def run_kani(run, harnesses, jobs=None, timeout_s=300, tag="k", mem_gb=None, extra_args=()):
    """Build the snapshot with its overlay once and verify the given harnesses. Returns {name: KaniResult}."""
    if not harnesses:
        return {}
    jobs = jobs or NCPU
    tdir = os.path.join(run.scratch, "kani-target")
    out_json = os.path.join(run.scratch, f"kani-{tag}.json")
    logp = os.path.join(run.scratch, f"kani-{tag}.log")
    if os.path.exists(out_json):
        os.remove(out_json)
    cmd = ["cargo", "kani", "--target-dir", tdir, "-j", str(jobs), "--output-format", "terse",
           "-Z", "unstable-options", "-Z", "stubbing", "--harness-timeout", f"{int(timeout_s)}s",
           "--export-json", out_json]
    cmd += list(extra_args)
    for h in harnesses:
        cmd += ["--harness", f"::proofs::{h.name}"]
    t0 = time.time()
    # global cap: everything could time out one after the other
    waves = (len(harnesses) + jobs - 1) // jobs
    cap = 240 + waves * (timeout_s + 30)
    rc, out = run_cmd(cmd, cwd=run.snap, timeout=cap, mem_gb=mem_gb, stdout_path=logp)
    wall = time.time() - t0
    res = {h.name: KaniResult(h.name) for h in harnesses}
    if "error: could not compile" in out or "error[E" in out:
        errs = [l for l in out.splitlines() if l.startswith("error")][:8]
        ctx = "\n".join(out.splitlines()[-60:]) if os.environ.get("VERIF_DEBUG") else ""
        raise EncodingError("the snapshot with the generated harness overlay does not compile under Kani: "
                            + " | ".join(errs) + ctx)
    data = None
    if os.path.exists(out_json):
        try:
            with open(out_json) as f:
                data = json.load(f)
        except Exception as e:  # truncated file
            log(f"[kani] export-json unreadable: {e}")
    if data is None:
        _parse_terse(out, res)
    else:
        _parse_json(data, res)
        _parse_terse(out, res, only_missing=True)
    for r in res.values():
        run.solver_time_s += r.time_s
    log(f"[kani:{tag}] {len(harnesses)} harnesses, wall {wall:.1f}s, rc={rc}: "
        + ", ".join(f"{k}={sum(1 for r in res.values() if r.status == k)}"
                    for k in ("pass", "fail", "unwind", "timeout", "vacuous", "error", "missing")))
    return res


def _short(n):
    return n.rsplit("::", 1)[-1]


def _parse_json(data, res):
    stats = {}
    for c in data.get("cbmc", []):
        stats[_short(c.get("harness_id", ""))] = c.get("cbmc_stats", {})
    errs = {_short(e.get("harness_id", "")): e for e in data.get("error_details", [])}
    for r in data.get("verification_results", {}).get("results", []):
        n = _short(r.get("harness_id", ""))
        if n not in res:
            continue
        k = res[n]
        k.full_id = r.get("harness_id", "")
        k.time_s = r.get("duration_ms", 0) / 1000.0
        k.stats = stats.get(n, {})
        checks = r.get("checks", []) or []
        k.nchecks = len(checks)
        bad, unw = [], []
        for c in checks:
            st = (c.get("status") or "").lower()
            cat = (c.get("category") or "").lower()
            if cat == "cover" or st in ("satisfied", "unsatisfiable", "covered", "uncovered"):
                if st in ("satisfied", "covered"):
                    k.covers_sat += 1
                elif st in ("unsatisfiable", "uncovered"):
                    k.covers_unsat += 1
                continue
            if st in ("failure", "failed"):
                cl = classify(c)
                loc = c.get("location", {}) or {}
                item = {"description": c.get("description"), "function": c.get("function"),
                        "where": f"{loc.get('file')}:{loc.get('line')}", "category": c.get("category")}
                if cl == "unwind":
                    unw.append(item)
                elif cl == "nan":
                    pass
                else:
                    bad.append(item)
            elif st in ("undetermined",) and classify(c) == "check":
                # happens when an unwinding assertion failed earlier on the path
                pass
        st = (r.get("status") or "").lower()
        k.failed = bad
        if unw:
            k.status = "unwind"
            k.detail = unw[0]["description"] + " @ " + str(unw[0]["function"])
        elif bad:
            k.status = "fail"
        elif st in ("success", "successful"):
            k.status = "pass"
        elif st in ("failure", "failed"):
            ex = (errs.get(n, {}).get("exit_status") or "").lower()
            if ex == "timeout":
                k.status = "timeout"
            elif checks and ex in ("", "properties_failed"):
                # failed only through ignored check classes (NaN) => counts as pass
                k.status = "pass"
            else:
                k.status = "error"
                k.detail = ex or "no checks reported"
        elif "timeout" in st or "timed" in st:
            k.status = "timeout"
        else:
            k.status = "error"
            k.detail = st
        if k.status == "pass" and k.covers_unsat:
            k.status = "vacuous"


_HDR = re.compile(r"^(?:Thread \d+: )?Checking harness (\S+?)\.\.\.")


def _parse_terse(out, res, only_missing=False):
    """Fallback parser for the terse text (used for harnesses the JSON does not mention, e.g. timeouts)."""
    cur_by_thread = {}
    lines = out.splitlines()
    i = 0
    cur = None
    while i < len(lines):
        l = lines[i]
        m = re.match(r"^(Thread \d+): Checking harness (\S+?)\.\.\.", l) or None
        if m:
            cur_by_thread[m.group(1)] = _short(m.group(2))
        else:
            m2 = re.match(r"^Checking harness (\S+?)\.\.\.", l)
            if m2:
                cur_by_thread[""] = _short(m2.group(1))
        mt = re.match(r"^(Thread \d+): *$", l)
        if mt:
            cur = cur_by_thread.get(mt.group(1))
        elif l.startswith("VERIFICATION RESULT") and "" in cur_by_thread and not cur:
            cur = cur_by_thread.get("")
        if cur and cur in res and (not only_missing or res[cur].status == "missing"):
            k = res[cur]
            if l.startswith("VERIFICATION:- SUCCESSFUL"):
                k.status = "pass"
            elif l.startswith("VERIFICATION:- FAILED"):
                if k.status == "missing":
                    k.status = "fail"
            elif l.startswith("Failed Checks:"):
                d = l[len("Failed Checks:"):].strip()
                if "unwinding assertion" in d:
                    k.status = "unwind"
                    k.detail = d
                elif not IGNORED_CHECK_RE.match(d):
                    k.failed.append({"description": d, "where": lines[i + 1].strip() if i + 1 < len(lines) else ""})
            elif "timed out" in l.lower() or "timeout" in l.lower():
                k.status = "timeout"
            m3 = re.match(r"^Verification Time: ([0-9.]+)s", l)
            if m3:
                k.time_s = float(m3.group(1))
                cur = None
        i += 1
    # Kani prints a summary of timeouts
    for m in re.finditer(r"(?:timed out|Timeout)[^\n]*?(\S+::proofs::\w+)", out):
        n = _short(m.group(1))
        if n in res and res[n].status == "missing":
            res[n].status = "timeout"


def playback(run, h, timeout_s=600, extra_args=(), full_id=None):
    """Re-run one failing harness alone with concrete playback and return the list of byte vectors."""
    tdir = os.path.join(run.scratch, "kani-target")
    cmd = ["cargo", "kani", "--target-dir", tdir, "--output-format", "terse", "-Z", "unstable-options",
           "-Z", "stubbing", "-Z", "concrete-playback", "--concrete-playback=print", "--no-slice-formula",
           "--harness-timeout", f"{int(timeout_s)}s"] + (["--harness", full_id, "--exact"] if full_id else
                                                          ["--harness", f"::proofs::{h.name}"]) + list(extra_args)
    rc, out = run_cmd(cmd, cwd=run.snap, timeout=timeout_s + 240)
    tests = []
    for m in re.finditer(r"let concrete_vals: Vec<Vec<u8>> = vec!\[(.*?)\n\s*\];", out, re.S):
        vals = []
        for vm in re.finditer(r"vec!\[([0-9, ]*)\]", m.group(1)):
            s = vm.group(1).strip()
            vals.append([int(x) for x in s.split(",") if x.strip()] if s else [])
        tests.append(vals)
    descr = re.findall(r"/// Check for `[^`]*`: \"(.*?)\"", out)
    return tests, descr, out


def native_replay(run, h, vals, profile="dev", timeout_s=900):
    """Run the same body natively (no stubs, real dependencies) on the solver's values.

    Returns (outcome, log) with outcome in: reproduced | not-reproduced | assume-violated | misaligned | build-error
    """
    tdir = os.path.join(run.scratch, "native-target")
    cmd = ["cargo", "test", "--offline", "--lib", "--target-dir", tdir]
    if profile == "release":
        cmd.append("--release")
    cmd += ["--", "--exact", "--nocapture", "--test-threads", "1"]
    # module path of the test
    cmd_filter = None
    rc, out = run_cmd(["cargo", "test", "--offline", "--lib", "--target-dir", tdir, "--no-run"]
                      + (["--release"] if profile == "release" else []),
                      cwd=run.snap, timeout=timeout_s, env={"RUSTFLAGS": "--cfg verif_replay -A warnings"})
    if rc != 0:
        return "build-error", out[-3000:]
    env = {"RUSTFLAGS": "--cfg verif_replay -A warnings",
           "VERIF_VALS": ";".join(",".join(str(b) for b in v) for v in vals), "RUST_BACKTRACE": "0"}
    cmd = ["cargo", "test", "--offline", "--lib", "--target-dir", tdir] + (["--release"] if profile == "release" else []) \
        + ["--", f"::replays::{h.name}", "--nocapture", "--test-threads", "1"]
    rc, out = run_cmd(cmd, cwd=run.snap, timeout=timeout_s, env=env)
    ran = re.search(r"running (\d+) test", out)
    if "VERIF-ASSUME-VIOLATED" in out:
        return "assume-violated", out[-2000:]
    if "VERIF-REPLAY-MISALIGNED" in out:
        return "misaligned", out[-2000:]
    m = re.search(r"test result: (\w+)\. (\d+) passed; (\d+) failed", out)
    if not m or (int(m.group(2)) + int(m.group(3))) != 1:
        # process abort (stack overflow, abort) also counts as reproduced if the test started
        if "VERIF-REPLAY-START" in out and rc != 0:
            return "reproduced", out[-3000:]
        return "build-error", out[-3000:]
    if int(m.group(3)) == 1:
        return "reproduced", out[-3000:]
    return "not-reproduced", out[-3000:]


def decide(run, overlay_harnesses, results, replay=True, on_unreproduced=None):
    """Turn raw Kani results into obligations / findings / inconclusives on `run`.

    A failing harness becomes a finding only after its counterexample reproduces natively (dev or release).
    """
    for h in overlay_harnesses:
        r = results.get(h.name)
        if r is None:
            continue
        base = dict(bounds={"unwind": h.unwind}, meta=h.meta, stubs=[a for a, _ in h.stubs],
                    checks=r.nchecks, covers_satisfied=r.covers_sat, cbmc=r.stats)
        if r.status == "pass":
            run.obligation(h.cell, "kani-harness", "pass", r.time_s, **base)
        elif r.status == "fail":
            what = "; ".join(sorted({f"{c['description']} [{c.get('function') or c.get('where')}]" for c in r.failed}))[:600]
            if not replay:
                run.obligation(h.cell, "kani-harness", "fail-unreplayed", r.time_s, failed=r.failed, **base)
                run.inconc(h.cell, "counterexample not replayed: " + what, h.mandatory)
                continue
            tests, descr, pout = playback(run, h, full_id=getattr(r, "full_id", None) or None)
            if not tests:
                run.obligation(h.cell, "kani-harness", "fail-noplayback", r.time_s, failed=r.failed, **base)
                run.inconc(h.cell, "CBMC reported a failing check but concrete playback produced no values: " + what,
                           h.mandatory)
                continue
            confirmed = None
            logs = []
            for vals in tests[:4]:
                for prof in ("dev", "release"):
                    oc, olog = native_replay(run, h, vals, prof)
                    logs.append({"profile": prof, "outcome": oc, "tail": olog[-1500:]})
                    if oc == "reproduced":
                        confirmed = {"harness": h.name, "vals": vals, "profile": prof, "meta": h.meta,
                                     "observed": re.findall(r"VERIF-OBSERVED (.*)", olog),
                                     "panic": re.findall(r"panicked at[^\n]*\n[^\n]*", olog)[:2],
                                     "kani_failed_checks": r.failed[:6]}
                        break
                if confirmed:
                    break
            if confirmed:
                cls = failure_class(r.failed)
                run.obligation(h.cell, "kani-harness", "fail", r.time_s, failed=r.failed[:6], **base)
                run.finding(h.cell, cls, what, confirmed)
            else:
                run.obligation(h.cell, "kani-harness", "fail-unreproduced", r.time_s, failed=r.failed[:6],
                               replay_log=logs, **base)
                if on_unreproduced and on_unreproduced(h, r, logs):
                    continue
                run.inconc(h.cell, "counterexample did not reproduce natively (encoding/stub mismatch): " + what, True)
        elif r.status == "unwind":
            run.obligation(h.cell, "kani-harness", "unwind-bound-too-small", r.time_s, detail=r.detail, **base)
            run.inconc(h.cell, f"unwinding assertion failed (bound {h.unwind} too small): {r.detail}", h.mandatory)
        elif r.status == "vacuous":
            run.obligation(h.cell, "kani-harness", "vacuous", r.time_s, **base)
            run.inconc(h.cell, "a vacuity witness (cover) is unsatisfiable: the harness does not reach its assertion", True)
        else:
            run.obligation(h.cell, "kani-harness", r.status, r.time_s, detail=r.detail, **base)
            run.inconc(h.cell, f"no verdict ({r.status} {r.detail})", h.mandatory)


def failure_class(failed):
    """Coarse failure class used to key known findings: panic | overflow | assertion | memory."""
    ds = " ".join((c.get("description") or "") for c in failed).lower()
    if "attempt to" in ds and "overflow" in ds:
        return "arithmetic-overflow"
    if "assertion failed" in ds:
        return "assertion"
    if "panic" in ds or "unwrap" in ds or "expect" in ds or "explicit" in ds or "not yet implemented" in ds:
        return "panic"
    if "index out of bounds" in ds or "slice" in ds or "dereference" in ds or "pointer" in ds:
        return "memory"
    return "check"
