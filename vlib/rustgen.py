"""Rust snippet generators shared by the harness generators: symbolic `Value`s with concrete tags."""

TAGS = ["String", "Int", "Float", "Decimal", "Bool", "DateTime", "Duration", "Vec", "Map", "None"]
SCALAR_TAGS = ["Int", "Float", "Decimal", "Bool", "DateTime", "Duration", "None"]
CONTAINER_TAGS = ["String", "Vec", "Map"]
BT = "std::collections::BTreeMap"


class Sym:
    """A symbolic operand: statements declaring payload variable(s), the Value expression, and a predicate
    `same(ref_expr)` that is true iff `ref_expr: &Value` is the very same value (bit-wise for floats,
    representation-wise for decimals)."""

    def __init__(self, tag, var, dec="full", string=None):
        self.tag = tag
        self.var = var
        v = var
        if tag == "Int":
            self.decl = f"let {v} = inp.i128();"
            self.value = f"Value::Int({v})"
            self._same = f"matches!(%s, Value::Int(p_) if *p_ == {v})"
            self.descr = "every i128"
        elif tag == "Float":
            self.decl = f"let {v} = inp.f64();"
            self.value = f"Value::Float({v})"
            self._same = f"matches!(%s, Value::Float(p_) if same_f64(*p_, {v}))"
            self.descr = "every f64 bit pattern (NaN, +-inf, -0 included)"
        elif tag == "Decimal":
            fn = "any_decimal" if dec == "full" else "any_decimal_scale0"
            self.decl = f"let {v} = {fn}(inp);"
            self.value = f"Value::Decimal({v})"
            self._same = f"matches!(%s, Value::Decimal(p_) if same_dec(p_, &{v}))"
            self.descr = "every Decimal (96-bit mantissa, sign, scale 0..=28)" if dec == "full" else \
                "every Decimal of scale 0 (96-bit mantissa, sign)"
        elif tag == "Bool":
            self.decl = f"let {v} = inp.bool();"
            self.value = f"Value::Bool({v})"
            self._same = f"matches!(%s, Value::Bool(p_) if *p_ == {v})"
            self.descr = "both booleans"
        elif tag == "DateTime":
            self.decl = f"let ({v}, {v}_y, {v}_ord, {v}_secs, {v}_nano) = any_datetime_parts(inp);"
            self.value = f"Value::DateTime({v})"
            self._same = f"matches!(%s, Value::DateTime(p_) if *p_ == {v})"
            self.descr = "every valid DateTime<Utc> (no leap-second representation)"
        elif tag == "Duration":
            self.decl = f"let ({v}, {v}_s, {v}_n) = any_duration_parts(inp);"
            self.value = f"Value::Duration({v})"
            self._same = f"matches!(%s, Value::Duration(p_) if *p_ == {v})"
            self.descr = "every valid TimeDelta"
        elif tag == "String":
            if string is None:
                self.decl = ""
                self.value = "Value::String(String::new())"
                self._same = "matches!(%s, Value::String(p_) if p_.is_empty())"
                self.descr = "the empty string (fixed shape)"
            else:
                self.decl = ""
                self.value = f"Value::String(String::from({string!r}))".replace("'", '"')
                self._same = f"matches!(%s, Value::String(p_) if p_.as_bytes() == {string!r}.as_bytes())".replace("'", '"')
                self.descr = f"the string {string!r} (fixed shape)"
        elif tag == "Vec":
            self.decl = ""
            self.value = "Value::Vec(Vec::new())"
            self._same = "matches!(%s, Value::Vec(p_) if p_.is_empty())"
            self.descr = "the empty list (fixed shape)"
        elif tag == "Map":
            self.decl = ""
            self.value = f"Value::Map({BT}::new())"
            self._same = "matches!(%s, Value::Map(p_) if p_.is_empty())"
            self.descr = "the empty map (fixed shape)"
        elif tag == "None":
            self.decl = ""
            self.value = "Value::None"
            self._same = "matches!(%s, Value::None)"
            self.descr = "None"
        else:
            raise ValueError(tag)

    def same(self, ref):
        return self._same % ref


def indent(text, n=8):
    pad = " " * n
    return "\n".join(pad + l if l.strip() else l for l in text.splitlines())
