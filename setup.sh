#!/bin/sh
# Offline setup: nothing to build ahead of time (every check builds its own scratch snapshot); verify the tools.
set -e
cd "$(dirname "$0")"
command -v cargo >/dev/null && cargo kani --version >/dev/null
/opt/veriftools/pyvenv/bin/python -c "import z3" 
chmod +x check
mkdir -p evidence replays
echo "setup ok"
