//! Native replay of E3 counterexamples: a concrete scenario (rule expressions with probe leaves, facts, symbols, user functions
//! with planned results and Pending counts, builder call sequences) is run through reval's PUBLIC API; the observations
//! (outcomes, invocation log, builder results) are printed as JSON and compared by the Python side with the specification.
use reval::prelude::*;
use reval::function::{FunctionResult, UserFunction};
use reval::Error;
use reval::ruleset::Rule;
use serde_json::{json, Value as J};
use std::future::Future;
use std::pin::Pin;
use std::sync::{Arc, Mutex};
use std::task::{Context, Poll, RawWaker, RawWakerVTable, Waker};

fn noop_raw() -> RawWaker {
    fn clone(_: *const ()) -> RawWaker { noop_raw() }
    fn noop(_: *const ()) {}
    static VT: RawWakerVTable = RawWakerVTable::new(clone, noop, noop, noop);
    RawWaker::new(std::ptr::null(), &VT)
}

pub fn block_on<F: Future>(f: F) -> (F::Output, usize) {
    let waker = unsafe { Waker::from_raw(noop_raw()) };
    let mut cx = Context::from_waker(&waker);
    let mut f = Box::pin(f);
    let mut polls = 0;
    loop {
        polls += 1;
        if let Poll::Ready(v) = f.as_mut().poll(&mut cx) { return (v, polls); }
        if polls > 10_000 { panic!("future never completes"); }
    }
}

struct PendingN(usize);
impl Future for PendingN {
    type Output = ();
    fn poll(mut self: Pin<&mut Self>, _cx: &mut Context<'_>) -> Poll<()> {
        if self.0 == 0 { Poll::Ready(()) } else { self.0 -= 1; Poll::Pending }
    }
}

pub fn value(v: &J) -> Value {
    let t = v["t"].as_str().unwrap_or("None");
    let p = &v["v"];
    match t {
        "Int" => Value::Int(p.as_str().unwrap().parse().unwrap()),
        "Float" => Value::Float(match p.as_str().unwrap() { "NaN" => f64::NAN, "+oo" => f64::INFINITY, "-oo" => f64::NEG_INFINITY, s => s.parse().unwrap() }),
        "Decimal" => Value::Decimal(p.as_str().unwrap().parse().unwrap()),
        "String" => Value::String(p.as_str().unwrap().to_string()),
        "Bool" => Value::Bool(p.as_bool().unwrap()),
        "DateTime" => Value::DateTime(chrono::DateTime::from_timestamp(p.as_i64().unwrap(), 0).unwrap()),
        "Duration" => Value::Duration(chrono::TimeDelta::seconds(p.as_i64().unwrap())),
        "Vec" => Value::Vec(p.as_array().unwrap().iter().map(value).collect()),
        "Map" => Value::Map(p.as_array().unwrap().iter().map(|kv| (kv[0].as_str().unwrap().to_string(), value(&kv[1]))).collect()),
        _ => Value::None,
    }
}

pub fn jvalue(v: &Value) -> J {
    match v {
        Value::String(s) => json!({"t": "String", "v": s}),
        Value::Int(i) => json!({"t": "Int", "v": i.to_string()}),
        Value::Float(f) => json!({"t": "Float", "v": if f.is_nan() { "NaN".to_string() } else if *f == f64::INFINITY { "+oo".into() } else if *f == f64::NEG_INFINITY { "-oo".into() } else { format!("{:?}", f) }}),
        Value::Decimal(d) => json!({"t": "Decimal", "v": d.to_string()}),
        Value::Bool(b) => json!({"t": "Bool", "v": b}),
        Value::DateTime(d) => json!({"t": "DateTime", "v": d.timestamp()}),
        Value::Duration(d) => json!({"t": "Duration", "v": d.num_seconds()}),
        Value::Vec(v) => json!({"t": "Vec", "v": v.iter().map(jvalue).collect::<Vec<_>>()}),
        Value::Map(m) => json!({"t": "Map", "v": m.iter().map(|(k, x)| json!([k, jvalue(x)])).collect::<Vec<_>>()}),
        Value::None => json!({"t": "None"}),
    }
}

fn jerror(e: &Error) -> J {
    match e {
        Error::InvalidType => json!({"variant": "InvalidType"}),
        Error::UnknownRef(n) => json!({"variant": "UnknownRef", "a": n}),
        Error::InvalidSymbol(n) => json!({"variant": "InvalidSymbol", "a": n}),
        Error::UnknownUserFunction(n) => json!({"variant": "UnknownUserFunction", "a": n}),
        Error::UserFunctionError { function, error } => json!({"variant": "UserFunctionError", "a": function, "b": error.to_string()}),
        Error::InvalidFunctionName(n) => json!({"variant": "InvalidFunctionName", "a": n}),
        Error::DuplicateFunctionName(n) => json!({"variant": "DuplicateFunctionName", "a": n}),
        Error::DuplicateRuleName(n) => json!({"variant": "DuplicateRuleName", "a": n}),
        Error::DivisionByZero => json!({"variant": "DivisionByZero"}),
        other => json!({"variant": "Other", "a": format!("{other:?}")}),
    }
}

fn jresult(r: &std::result::Result<Value, Error>) -> J {
    match r { Ok(v) => json!({"ok": jvalue(v)}), Err(e) => json!({"err": jerror(e)}) }
}

type Log = Arc<Mutex<Vec<J>>>;

/// A user function with a planned list of results (consumed one per invocation; the last one repeats) and Pending polls per call.
struct Planned { name: &'static str, cacheable: bool, results: Vec<J>, by_param: Vec<J>, pending: usize, calls: Mutex<usize>, log: Log }

#[async_trait::async_trait]
impl UserFunction for Planned {
    async fn call(&self, p: Value) -> FunctionResult {
        let n = { let mut c = self.calls.lock().unwrap(); *c += 1; *c - 1 };
        self.log.lock().unwrap().push(json!(["call", self.name, jvalue(&p)]));
        PendingN(self.pending).await;
        let pj = jvalue(&p).to_string();
        let keyed = self.by_param.iter().find(|e| e[0].to_string() == pj).map(|e| e[1].clone());
        let r = if let Some(k) = keyed { k } else if self.results.is_empty() { json!({"ok": {"t": "None"}}) } else { self.results[n.min(self.results.len() - 1)].clone() };
        if r.get("ok").is_some() { Ok(value(&r["ok"])) } else { Err(anyhow::anyhow!("{}", r["err"].as_str().unwrap_or("error"))) }
    }
    fn name(&self) -> &'static str { self.name }
    fn cacheable(&self) -> bool { self.cacheable }
}

/// The probe leaf: `probe(i<k>)` logs k, suspends as planned and returns the planned result of leaf k. Never cached.
struct Probe { plan: J, log: Log }

#[async_trait::async_trait]
impl UserFunction for Probe {
    async fn call(&self, p: Value) -> FunctionResult {
        let k = match p { Value::Int(k) => k, _ => -1 };
        self.log.lock().unwrap().push(json!(["eval", k as i64]));
        let plan = &self.plan[k.to_string()];
        PendingN(plan["pending"].as_u64().unwrap_or(0) as usize).await;
        let r = &plan["res"];
        if r.get("ok").is_some() { Ok(value(&r["ok"])) } else { Err(anyhow::anyhow!("{}", r["err"].as_str().unwrap_or("leaf-error"))) }
    }
    fn name(&self) -> &'static str { "probe" }
    fn cacheable(&self) -> bool { false }
}

fn leak(s: &str) -> &'static str { Box::leak(s.to_string().into_boxed_str()) }

pub fn expr(v: &J) -> Expr {
    let k = v["k"].as_str().unwrap_or("");
    match k {
        "probe" => Expr::Function("probe".to_string(), Box::new(Expr::Value(Value::Int(v["id"].as_i64().unwrap() as i128)))),
        "Value" => Expr::Value(value(&v["v"])),
        "Reference" => Expr::Reference(v["n"].as_str().unwrap().to_string()),
        "Symbol" => Expr::Symbol(v["n"].as_str().unwrap().to_string()),
        "Function" => Expr::Function(v["n"].as_str().unwrap().to_string(), Box::new(expr(&v["c"][0]))),
        "Index" => {
            let i = if let Some(f) = v["i"]["f"].as_str() { reval::expr::Index::Map(f.to_string()) } else { reval::expr::Index::Vec(v["i"]["n"].as_u64().unwrap_or(0) as usize) };
            Expr::Index(Box::new(expr(&v["c"][0])), i)
        }
        "Vec" => Expr::Vec(v["c"].as_array().unwrap().iter().map(expr).collect()),
        "Map" => Expr::Map(v["m"].as_array().unwrap().iter().map(|kv| (kv[0].as_str().unwrap().to_string(), expr(&kv[1]))).collect()),
        _ => {
            // every other node kind through the generic builder of main.rs, with children converted first
            let kids: Vec<Expr> = v["c"].as_array().map(|a| a.iter().map(expr).collect()).unwrap_or_default();
            crate::build_with(k, kids)
        }
    }
}

pub fn run(sc: &J) -> J {
    let log: Log = Arc::new(Mutex::new(vec![]));
    let mut out = json!({});
    let mut b = reval::ruleset::ruleset();
    let mut steps = vec![];
    // builder call sequence (C15) or the default construction
    let empty = vec![];
    for st in sc["builder"].as_array().unwrap_or(&empty) {
        let op = st["op"].as_str().unwrap();
        let r: std::result::Result<reval::ruleset::Builder, Error> = match op {
            "function" => b.with_function(Planned { name: leak(st["name"].as_str().unwrap()), cacheable: st["cacheable"].as_bool().unwrap_or(true),
                results: st["results"].as_array().cloned().unwrap_or_default(), by_param: st["by_param"].as_array().cloned().unwrap_or_default(), pending: st["pending"].as_u64().unwrap_or(0) as usize,
                calls: Mutex::new(0), log: log.clone() }),
            "functions" => b.with_functions(st["names"].as_array().unwrap().iter().map(|n| Box::new(Planned { name: leak(n.as_str().unwrap()), cacheable: true,
                results: vec![], by_param: vec![], pending: 0, calls: Mutex::new(0), log: log.clone() }) as Box<dyn UserFunction + Send + Sync>).collect::<Vec<_>>()),
            "rule" => b.with_rule(Rule::new(st["name"].as_str().unwrap(), Default::default(), expr(&st["expr"]))),
            "rules" => b.with_rules(st["rules"].as_array().unwrap().iter().map(|r| Rule::new(r["name"].as_str().unwrap(), Default::default(), expr(&r["expr"]))).collect::<Vec<_>>()),
            "symbol" => Ok(b.with_symbol(st["name"].as_str().unwrap(), value(&st["value"]))),
            "symbols" => b.with_symbols(reval::symbol::Symbols::from(st["entries"].as_array().unwrap().iter().map(|kv| (kv[0].as_str().unwrap().to_string(), value(&kv[1]))).collect::<Vec<_>>())),
            "probe" => b.with_function(Probe { plan: sc["probes"].clone(), log: log.clone() }),
            other => panic!("unknown builder op {other}"),
        };
        match r {
            Ok(nb) => { steps.push(json!({"ok": true})); b = nb; }
            Err(e) => { steps.push(json!({"err": jerror(&e)})); out["steps"] = json!(steps); out["aborted"] = json!(true); return out; }
        }
    }
    out["steps"] = json!(steps);
    let rs = b.build();
    let facts = value(&sc["facts"]);
    let evals = sc["evaluations"].as_u64().unwrap_or(1);
    let mut runs = vec![];
    for _ in 0..evals {
        let (res, polls) = block_on(rs.evaluate_value(&facts));
        let res = res.expect("evaluate_value itself never fails");
        runs.push(json!({"polls": polls, "outcomes": res.iter().map(|o| json!({"rule": o.rule.name(), "value": jresult(&o.value)})).collect::<Vec<_>>()}));
    }
    out["runs"] = json!(runs);
    out["log"] = json!(*log.lock().unwrap());
    out
}


/// `convert`: extraction of a list / map of u8 from a Value through the public TryFrom impls.
pub fn convert(req: &J) -> J {
    use std::collections::{BTreeMap, HashMap};
    let v = value(&req["value"]);
    fn err(e: Error) -> J {
        match e {
            Error::UnexpectedValueType(v, _) => json!({"err": {"variant": "UnexpectedValueType", "value": jvalue(&v)}}),
            Error::NumericOverflow(_) => json!({"err": {"variant": "NumericOverflow"}}),
            other => json!({"err": {"variant": "Other", "a": format!("{other:?}")}}),
        }
    }
    match req["target"].as_str().unwrap_or("") {
        "vec" => match Vec::<u8>::try_from(v) { Ok(x) => json!({"ok": x}), Err(e) => err(e) },
        "btreemap" => match BTreeMap::<String, u8>::try_from(v) { Ok(x) => json!({"ok": x.into_iter().map(|(k, v)| json!([k, v])).collect::<Vec<_>>()}), Err(e) => err(e) },
        "hashmap" => match HashMap::<String, u8>::try_from(v) {
            Ok(x) => { let mut e: Vec<(String, u8)> = x.into_iter().collect(); e.sort(); json!({"ok": e.into_iter().map(|(k, v)| json!([k, v])).collect::<Vec<_>>()}) }
            Err(e) => err(e),
        },
        other => panic!("unknown conversion target {other}"),
    }
}


/// `serialize`: container kinds of the serde data model with elements that serialize to an integer or fail, through the public serializer.
pub fn serialize(req: &J) -> J {
    use serde::ser::{Error as _, Serialize, SerializeMap, SerializeSeq, SerializeStruct, SerializeStructVariant, SerializeTuple, SerializeTupleStruct, SerializeTupleVariant, Serializer};
    struct El(Option<i64>);
    impl Serialize for El {
        fn serialize<S: Serializer>(&self, s: S) -> std::result::Result<S::Ok, S::Error> {
            match self.0 { Some(v) => s.serialize_i64(v), None => Err(S::Error::custom("element")) }
        }
    }
    struct Key(&'static str, bool);
    impl Serialize for Key {
        fn serialize<S: Serializer>(&self, s: S) -> std::result::Result<S::Ok, S::Error> {
            if self.1 { s.serialize_str(self.0) } else { s.serialize_i32(7) }
        }
    }
    struct Container { kind: String, els: Vec<El>, keys_ok: Vec<bool>, repeat: bool }
    const NAMES: [&str; 4] = ["a", "b", "c", "d"];
    impl Serialize for Container {
        fn serialize<S: Serializer>(&self, s: S) -> std::result::Result<S::Ok, S::Error> {
            let n = self.els.len();
            let nm = |i: usize| if self.repeat { NAMES[0] } else { NAMES[i] };
            match self.kind.as_str() {
                "collect_seq" => s.collect_seq(self.els.iter()),
                "seq" => { let mut c = s.serialize_seq(Some(n))?; for e in &self.els { c.serialize_element(e)?; } c.end() }
                "tuple" => { let mut c = s.serialize_tuple(n)?; for e in &self.els { c.serialize_element(e)?; } c.end() }
                "tuple_struct" => { let mut c = s.serialize_tuple_struct("T", n)?; for e in &self.els { c.serialize_field(e)?; } c.end() }
                "tuple_variant" => { let mut c = s.serialize_tuple_variant("E", 0, "T", n)?; for e in &self.els { c.serialize_field(e)?; } c.end() }
                "map" => { let mut c = s.serialize_map(Some(n))?; for (i, e) in self.els.iter().enumerate() { c.serialize_key(&Key(nm(i), self.keys_ok[if self.repeat { 0 } else { i }]))?; c.serialize_value(e)?; } c.end() }
                "struct" => { let mut c = s.serialize_struct("S", n)?; for (i, e) in self.els.iter().enumerate() { c.serialize_field(nm(i), e)?; } c.end() }
                "struct_variant" => { let mut c = s.serialize_struct_variant("E", 0, "S", n)?; for (i, e) in self.els.iter().enumerate() { c.serialize_field(NAMES[i], e)?; } c.end() }
                other => Err(S::Error::custom(format!("unknown kind {other}"))),
            }
        }
    }
    let els: Vec<El> = req["elems"].as_array().unwrap().iter().map(|e| El(e["ok"].as_i64())).collect();
    let keys_ok: Vec<bool> = req["keys_ok"].as_array().map(|a| a.iter().map(|b| b.as_bool().unwrap_or(true)).collect()).unwrap_or_else(|| vec![true; els.len()]);
    let c = Container { kind: req["kind"].as_str().unwrap_or("").to_string(), els, keys_ok, repeat: req["repeat_key"].as_bool().unwrap_or(false) };
    match c.serialize(reval::value::ser::ValueSerializer) {
        Ok(v) => json!({"ok": jvalue(&v)}),
        Err(Error::ValueSerializationError(m)) if m.contains("element") => json!({"err": "element"}),
        Err(Error::ValueSerializationError(_)) => json!({"err": "key"}),
        Err(other) => json!({"err": format!("{other:?}")}),
    }
}
