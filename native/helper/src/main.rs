//! Native helper for the E2 checks: runs the REAL parser / printer / lexer driver on concrete texts.
//! Input: one JSON string per line on stdin. Output: one line per input.
//!   parse       -> "OK <sexpr>" | "ERR <message>" | "PANIC <message>"
//!   rule        -> "OK (Rule name=<json> desc=<json|null> (Meta (k <value-sexpr>)..) <expr-sexpr>)" | "ERR .." | "PANIC .."
//!   roundtrip   -> "OK same" | "DIFF <rendering json> <reparsed sexpr or ERR>" | "ERR <message>" (input does not parse)
//!   render      -> "OK <rendering json>"
//!   lex <spec.json> -> token index sequence under lalrpop's real matcher built from the given regex list
mod scenario;
use reval::prelude::*;
use std::io::{BufRead, Write};
use std::panic;

fn jstr(s: &str) -> String { serde_json::to_string(s).unwrap() }

fn val(v: &Value) -> String {
    match v {
        Value::String(s) => format!("(String {})", jstr(s)),
        Value::Int(i) => format!("(Int {i})"),
        Value::Float(f) => format!("(Float {:?} bits={:016x})", f, f.to_bits()),
        Value::Decimal(d) => format!("(Decimal {} scale={})", d.mantissa(), d.scale()),
        Value::Bool(b) => format!("(Bool {b})"),
        Value::DateTime(d) => format!("(DateTime {})", d.timestamp_nanos_opt().map(|x| x.to_string()).unwrap_or_else(|| d.to_string())),
        Value::Duration(d) => format!("(Duration {})", d),
        Value::Vec(v) => format!("(VecValue{})", v.iter().map(|x| format!(" {}", val(x))).collect::<String>()),
        Value::Map(m) => format!("(MapValue{})", m.iter().map(|(k, x)| format!(" ({} {})", jstr(k), val(x))).collect::<String>()),
        Value::None => "(NoneLit)".to_string(),
    }
}

fn sx(e: &Expr) -> String {
    use Expr::*;
    let un = |n: &str, a: &Expr| format!("({n} {})", sx(a));
    let bin = |n: &str, a: &Expr, b: &Expr| format!("({n} {} {})", sx(a), sx(b));
    match e {
        Value(v) => val(v),
        Reference(n) => format!("(Reference {})", jstr(n)),
        Symbol(n) => format!("(Symbol {})", jstr(n)),
        Function(n, a) => format!("(Function {} {})", jstr(n), sx(a)),
        Index(a, reval::expr::Index::Map(k)) => format!("(IndexField {} {})", sx(a), jstr(k)),
        Index(a, reval::expr::Index::Vec(k)) => format!("(IndexNum {} {})", sx(a), k),
        If(c, a, b) => format!("(If {} {} {})", sx(c), sx(a), sx(b)),
        Map(m) => format!("(Map{})", m.iter().map(|(k, x)| format!(" ({} {})", jstr(k), sx(x))).collect::<String>()),
        Vec(v) => format!("(Vec{})", v.iter().map(|x| format!(" {}", sx(x))).collect::<String>()),
        Not(a) => un("Not", a), Neg(a) => un("Neg", a), Some(a) => un("Some", a), None(a) => un("None", a),
        Int(a) => un("Int", a), Float(a) => un("Float", a), Dec(a) => un("Dec", a), DateTime(a) => un("DateTime", a),
        Duration(a) => un("Duration", a),
        Mult(a, b) => bin("Mult", a, b), Div(a, b) => bin("Div", a, b), Rem(a, b) => bin("Rem", a, b),
        Add(a, b) => bin("Add", a, b), Sub(a, b) => bin("Sub", a, b), Equals(a, b) => bin("Equals", a, b),
        NotEquals(a, b) => bin("NotEquals", a, b), GreaterThan(a, b) => bin("GreaterThan", a, b),
        GreaterThanEquals(a, b) => bin("GreaterThanEquals", a, b), LessThan(a, b) => bin("LessThan", a, b),
        LessThanEquals(a, b) => bin("LessThanEquals", a, b), And(a, b) => bin("And", a, b), Or(a, b) => bin("Or", a, b),
        BitAnd(a, b) => bin("BitAnd", a, b), BitOr(a, b) => bin("BitOr", a, b), BitXor(a, b) => bin("BitXor", a, b),
        Contains(a, b) => bin("Contains", a, b),
        UpperCase(a) => un("UpperCase", a), LowerCase(a) => un("LowerCase", a), Trim(a) => un("Trim", a),
        Floor(a) => un("Floor", a), Round(a) => un("Round", a), Fract(a) => un("Fract", a), Year(a) => un("Year", a),
        Month(a) => un("Month", a), Week(a) => un("Week", a), Day(a) => un("Day", a), Hour(a) => un("Hour", a),
        Minute(a) => un("Minute", a), Second(a) => un("Second", a),
    }
}

/// Build an expression from a JSON tree spec (used to observe the printer on marker expressions).
fn build(v: &serde_json::Value) -> Expr {
    let k = v["k"].as_str().unwrap_or("");
    let kids: Vec<Expr> = v["c"].as_array().map(|a| a.iter().map(build).collect()).unwrap_or_default();
    let name = v["n"].as_str().unwrap_or("zn0").to_string();
    let mut it = kids.into_iter();
    let mut nx = || Box::new(it.next().expect("child"));
    match k {
        "Value" => {
            let t = v["v"]["t"].as_str().unwrap_or("None");
            let p = &v["v"]["v"];
            Expr::Value(match t {
                "Int" => Value::Int(p.as_str().unwrap().parse().unwrap()),
                "Float" => Value::Float(p.as_str().unwrap().parse().unwrap()),
                "Decimal" => Value::Decimal(p.as_str().unwrap().parse().unwrap()),
                "String" => Value::String(p.as_str().unwrap().to_string()),
                "Bool" => Value::Bool(p.as_bool().unwrap()),
                _ => Value::None,
            })
        }
        "Reference" => Expr::Reference(name),
        "Symbol" => Expr::Symbol(name),
        "Function" => Expr::Function(name, nx()),
        "Index" => {
            let i = if let Some(f) = v["i"]["f"].as_str() { reval::expr::Index::Map(f.to_string()) } else { reval::expr::Index::Vec(v["i"]["n"].as_u64().unwrap_or(0) as usize) };
            Expr::Index(nx(), i)
        }
        "If" => Expr::If(nx(), nx(), nx()),
        "Vec" => Expr::Vec(it.collect()),
        "Map" => Expr::Map(v["m"].as_array().map(|a| a.iter().map(|kv| (kv[0].as_str().unwrap().to_string(), build(&kv[1]))).collect()).unwrap_or_default()),
        "Not" => Expr::Not(nx()), "Neg" => Expr::Neg(nx()), "Some" => Expr::Some(nx()), "None" => Expr::None(nx()),
        "Int" => Expr::Int(nx()), "Float" => Expr::Float(nx()), "Dec" => Expr::Dec(nx()), "DateTime" => Expr::DateTime(nx()),
        "Duration" => Expr::Duration(nx()),
        "Mult" => Expr::Mult(nx(), nx()), "Div" => Expr::Div(nx(), nx()), "Rem" => Expr::Rem(nx(), nx()), "Add" => Expr::Add(nx(), nx()),
        "Sub" => Expr::Sub(nx(), nx()), "Equals" => Expr::Equals(nx(), nx()), "NotEquals" => Expr::NotEquals(nx(), nx()),
        "GreaterThan" => Expr::GreaterThan(nx(), nx()), "GreaterThanEquals" => Expr::GreaterThanEquals(nx(), nx()),
        "LessThan" => Expr::LessThan(nx(), nx()), "LessThanEquals" => Expr::LessThanEquals(nx(), nx()),
        "And" => Expr::And(nx(), nx()), "Or" => Expr::Or(nx(), nx()), "BitAnd" => Expr::BitAnd(nx(), nx()), "BitOr" => Expr::BitOr(nx(), nx()),
        "BitXor" => Expr::BitXor(nx(), nx()), "Contains" => Expr::Contains(nx(), nx()),
        "UpperCase" => Expr::UpperCase(nx()), "LowerCase" => Expr::LowerCase(nx()), "Trim" => Expr::Trim(nx()), "Floor" => Expr::Floor(nx()),
        "Round" => Expr::Round(nx()), "Fract" => Expr::Fract(nx()), "Year" => Expr::Year(nx()), "Month" => Expr::Month(nx()),
        "Week" => Expr::Week(nx()), "Day" => Expr::Day(nx()), "Hour" => Expr::Hour(nx()), "Minute" => Expr::Minute(nx()),
        "Second" => Expr::Second(nx()),
        other => panic!("unknown node kind {other}"),
    }
}

/// Node of kind `k` over already-built children (used by the scenario runner).
pub fn build_with(k: &str, kids: Vec<Expr>) -> Expr {
    let mut it = kids.into_iter();
    let mut nx = || Box::new(it.next().expect("child"));
    match k {
        "If" => Expr::If(nx(), nx(), nx()),
        "Not" => Expr::Not(nx()), "Neg" => Expr::Neg(nx()), "Some" => Expr::Some(nx()), "None" => Expr::None(nx()),
        "Int" => Expr::Int(nx()), "Float" => Expr::Float(nx()), "Dec" => Expr::Dec(nx()), "DateTime" => Expr::DateTime(nx()),
        "Duration" => Expr::Duration(nx()),
        "Mult" => Expr::Mult(nx(), nx()), "Div" => Expr::Div(nx(), nx()), "Rem" => Expr::Rem(nx(), nx()), "Add" => Expr::Add(nx(), nx()),
        "Sub" => Expr::Sub(nx(), nx()), "Equals" => Expr::Equals(nx(), nx()), "NotEquals" => Expr::NotEquals(nx(), nx()),
        "GreaterThan" => Expr::GreaterThan(nx(), nx()), "GreaterThanEquals" => Expr::GreaterThanEquals(nx(), nx()),
        "LessThan" => Expr::LessThan(nx(), nx()), "LessThanEquals" => Expr::LessThanEquals(nx(), nx()),
        "And" => Expr::And(nx(), nx()), "Or" => Expr::Or(nx(), nx()), "BitAnd" => Expr::BitAnd(nx(), nx()), "BitOr" => Expr::BitOr(nx(), nx()),
        "BitXor" => Expr::BitXor(nx(), nx()), "Contains" => Expr::Contains(nx(), nx()),
        "UpperCase" => Expr::UpperCase(nx()), "LowerCase" => Expr::LowerCase(nx()), "Trim" => Expr::Trim(nx()), "Floor" => Expr::Floor(nx()),
        "Round" => Expr::Round(nx()), "Fract" => Expr::Fract(nx()), "Year" => Expr::Year(nx()), "Month" => Expr::Month(nx()),
        "Week" => Expr::Week(nx()), "Day" => Expr::Day(nx()), "Hour" => Expr::Hour(nx()), "Minute" => Expr::Minute(nx()),
        "Second" => Expr::Second(nx()),
        other => panic!("unknown node kind {other}"),
    }
}

fn guarded<F: FnOnce() -> String + panic::UnwindSafe>(f: F) -> String {
    match panic::catch_unwind(f) {
        Ok(s) => s,
        Err(e) => {
            let m = e.downcast_ref::<String>().cloned().or_else(|| e.downcast_ref::<&str>().map(|s| s.to_string())).unwrap_or_default();
            format!("PANIC {}", jstr(&m))
        }
    }
}

fn main() {
    panic::set_hook(Box::new(|_| {}));
    let args: Vec<String> = std::env::args().collect();
    let mode = args.get(1).map(|s| s.as_str()).unwrap_or("parse").to_string();
    let stdin = std::io::stdin();
    let out = std::io::stdout();
    let mut out = out.lock();
    let lexspec: Option<Vec<(String, bool)>> = if mode == "lex" {
        let txt = std::fs::read_to_string(&args[2]).unwrap();
        let v: Vec<(String, bool)> = serde_json::from_str(&txt).unwrap();
        Option::Some(v)
    } else { Option::None };
    let matcher = lexspec.as_ref().map(|spec| lalrpop_util::lexer::MatcherBuilder::new(spec.iter().map(|(r, s)| (r.as_str(), *s))).unwrap());
    for line in stdin.lock().lines() {
        let line = line.unwrap();
        if line.trim().is_empty() { continue; }
        if mode == "scenario" {
            let spec: serde_json::Value = serde_json::from_str(&line).unwrap();
            let res = guarded(move || format!("OK {}", scenario::run(&spec)));
            writeln!(out, "{}", res).unwrap();
            continue;
        }
        if mode == "serialize" {
            let spec: serde_json::Value = serde_json::from_str(&line).unwrap();
            let res = guarded(move || format!("OK {}", scenario::serialize(&spec)));
            writeln!(out, "{}", res).unwrap();
            continue;
        }
        if mode == "convert" {
            let spec: serde_json::Value = serde_json::from_str(&line).unwrap();
            let res = guarded(move || format!("OK {}", scenario::convert(&spec)));
            writeln!(out, "{}", res).unwrap();
            continue;
        }
        if mode == "render-spec" {
            // input: a JSON tree spec; output: JSON string of its Display rendering
            let spec: serde_json::Value = serde_json::from_str(&line).unwrap();
            let res = guarded(move || format!("OK {}", jstr(&build(&spec).to_string())));
            writeln!(out, "{}", res).unwrap();
            continue;
        }
        let text: String = serde_json::from_str(&line).unwrap();
        let res = match mode.as_str() {
            "parse" => guarded(|| match Expr::parse(&text) { Ok(e) => format!("OK {}", sx(&e)), Err(e) => format!("ERR {}", jstr(&e.to_string())) }),
            "rule" => guarded(|| match Rule::parse(&text) {
                Ok(r) => {
                    let meta: String = r.iter_metadata().map(|(k, v)| format!(" ({} {})", jstr(k), val(v))).collect();
                    format!("OK (Rule name={} desc={} (Meta{}) {})", jstr(r.name()),
                            r.description().map(jstr).unwrap_or_else(|| "null".into()), meta, sx(r.expr()))
                }
                Err(e) => format!("ERR {}", jstr(&e.to_string())),
            }),
            "render" => guarded(|| match Expr::parse(&text) { Ok(e) => format!("OK {}", jstr(&e.to_string())), Err(e) => format!("ERR {}", jstr(&e.to_string())) }),
            "roundtrip" => guarded(|| match Expr::parse(&text) {
                Ok(e) => {
                    let r = e.to_string();
                    match Expr::parse(&r) {
                        Ok(e2) if e2 == e => "OK same".to_string(),
                        Ok(e2) => format!("DIFF {} {} WAS {}", jstr(&r), sx(&e2), sx(&e)),
                        Err(er) => format!("DIFF {} ERR {} WAS {}", jstr(&r), jstr(&er.to_string()), sx(&e)),
                    }
                }
                Err(e) => format!("ERR {}", jstr(&e.to_string())),
            }),
            "lex" => {
                let m = matcher.as_ref().unwrap();
                let mut toks: Vec<String> = vec![];
                let mut err = false;
                for t in m.matcher::<()>(&text) {
                    match t {
                        Ok((s, lalrpop_util::lexer::Token(i, _), e)) => toks.push(format!("{i}:{s}:{e}")),
                        Err(_) => { err = true; break; }
                    }
                }
                format!("{} {}", if err { "LEXERR" } else { "OK" }, toks.join(" "))
            }
            _ => "ERR unknown mode".to_string(),
        };
        writeln!(out, "{}", res).unwrap();
    }
}
