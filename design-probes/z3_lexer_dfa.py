import re, sys, time, itertools
try:
    import re._parser as sre_parse, re._constants as C
except ImportError:
    import sre_parse, sre_constants as C
from z3 import *

MAXC = 0x10FFFF
WS = [0x9,0xA,0xB,0xC,0xD,0x20,0x85,0xA0,0x1680]+list(range(0x2000,0x200B))+[0x2028,0x2029,0x202F,0x205F,0x3000]

# ---- regex -> NFA over code-point intervals
class NFA:
    def __init__(s): s.eps={}; s.tr={}; s.n=0
    def new(s): s.n+=1; return s.n-1
    def e(s,a,b): s.eps.setdefault(a,set()).add(b)
    def t(s,a,ivs,b): s.tr.setdefault(a,[]).append((ivs,b))
def norm(ivs):
    ivs=sorted(ivs); out=[]
    for lo,hi in ivs:
        if out and lo<=out[-1][1]+1: out[-1]=(out[-1][0],max(out[-1][1],hi))
        else: out.append((lo,hi))
    return out
def neg(ivs):
    out=[];p=0
    for lo,hi in norm(ivs):
        if lo>p: out.append((p,lo-1))
        p=hi+1
    if p<=MAXC: out.append((p,MAXC))
    return out
def cls(items):
    ivs=[];negate=False
    for op,av in items:
        if op==C.NEGATE: negate=True
        elif op==C.LITERAL: ivs.append((av,av))
        elif op==C.RANGE: ivs.append(av)
        elif op==C.CATEGORY:
            if av==C.CATEGORY_SPACE: ivs+= [(w,w) for w in WS]
            elif av==C.CATEGORY_DIGIT: ivs.append((48,57))
            else: raise Exception(av)
        else: raise Exception(op)
    return neg(ivs) if negate else norm(ivs)
def build(nfa,ast,start):
    cur=start
    for op,av in ast:
        if op==C.LITERAL:
            n=nfa.new(); nfa.t(cur,[(av,av)],n); cur=n
        elif op==C.NOT_LITERAL:
            n=nfa.new(); nfa.t(cur,neg([(av,av)]),n); cur=n
        elif op==C.ANY:
            n=nfa.new(); nfa.t(cur,neg([(10,10)]),n); cur=n
        elif op==C.IN:
            n=nfa.new(); nfa.t(cur,cls(av),n); cur=n
        elif op==C.SUBPATTERN:
            cur=build(nfa,av[3],cur)
        elif op==C.BRANCH:
            end=nfa.new()
            for alt in av[1]:
                s=nfa.new(); nfa.e(cur,s); e=build(nfa,alt,s); nfa.e(e,end)
            cur=end
        elif op in (C.MAX_REPEAT,C.MIN_REPEAT):
            lo,hi,sub=av
            for _ in range(lo): cur=build(nfa,sub,cur)
            if hi==C.MAXREPEAT:
                s=nfa.new(); nfa.e(cur,s); e=build(nfa,sub,s); nfa.e(e,s); out=nfa.new(); nfa.e(s,out); cur=out
            else:
                out=nfa.new(); nfa.e(cur,out)
                for _ in range(hi-lo):
                    cur=build(nfa,sub,cur); nfa.e(cur,out)
                cur=out
        elif op==C.CATEGORY:
            n=nfa.new(); nfa.t(cur,cls([(op,av)]),n); cur=n
        else: raise Exception(f"unsupported {op}")
    return cur
def multi_dfa(patterns):
    nfa=NFA(); start=nfa.new(); acc={}
    for idx,p in enumerate(patterns):
        s=nfa.new(); nfa.e(start,s); e=build(nfa,sre_parse.parse(p),s); acc[e]=idx
    # alphabet classes
    cuts={0,MAXC+1}
    for a,l in nfa.tr.items():
        for ivs,_ in l:
            for lo,hi in ivs: cuts.add(lo); cuts.add(hi+1)
    cuts=sorted(cuts); classes=[(cuts[i],cuts[i+1]-1) for i in range(len(cuts)-1)]
    def clo(S):
        S=set(S); st=list(S)
        while st:
            x=st.pop()
            for y in nfa.eps.get(x,()):
                if y not in S: S.add(y); st.append(y)
        return frozenset(S)
    d0=clo({start}); states={d0:0}; trans={}; work=[d0]; accs={}
    while work:
        S=work.pop(); si=states[S]
        accs[si]=sorted(acc[x] for x in S if x in acc)
        for ci,(lo,hi) in enumerate(classes):
            T=set()
            for x in S:
                for ivs,y in nfa.tr.get(x,()):
                    if any(a<=lo and hi<=b for a,b in ivs): T.add(y)
            if not T: continue
            T=clo(T)
            if T not in states: states[T]=len(states); work.append(T)
            trans[(si,ci)]=states[T]
    return classes,len(states),trans,accs

def tokenizer(s, tag, pats, skip, chars, n):
    """returns (tokclass[k], tokend[k]) symbolic for k<n ; class -1 = end, -2 = error"""
    classes,ns,trans,accs=multi_dfa(pats)
    DEAD=ns
    def cls_of(c):
        e=IntVal(len(classes)-1)
        for ci in range(len(classes)-2,-1,-1): e=If(c<=classes[ci][1],IntVal(ci),e)
        return e
    cc=[cls_of(c) for c in chars]
    def step(st,ci):
        e=IntVal(DEAD)
        for (si,cj),t in trans.items(): e=If(And(st==si,ci==cj),IntVal(t),e)
        return e
    def best(st):  # pattern index (max) or -1
        e=IntVal(-1)
        for si,a in accs.items():
            if a: e=If(st==si,IntVal(max(a)),e)
        return e
    # M[p][q]
    tok_at={}  # p -> (end, pattern) with end==p meaning no match
    for p in range(n):
        st=IntVal(0); end=IntVal(p); pat=IntVal(-1)
        for q in range(p+1,n+1):
            nst=Int(f"{tag}M_{p}_{q}"); s.add(nst==step(st,cc[q-1])); st=nst
            b=best(st); end=If(b>=0,IntVal(q),end); pat=If(b>=0,b,pat)
        tok_at[p]=(end,pat)
    # sequence
    pos=IntVal(0); out=[]
    for k in range(n+1):
        e=IntVal(n); pt=IntVal(-1)
        for p in range(n-1,-1,-1):
            e=If(pos==p,tok_at[p][0],e); pt=If(pos==p,tok_at[p][1],pt)
        kind=Int(f"{tag}kind_{k}"); nxt=Int(f"{tag}pos_{k+1}")
        # at end: kind -1 ; no match (pt==-1 or e==pos): -2 error, stay
        s.add(kind==If(pos>=n,IntVal(-1),If(pt<0,IntVal(-2),pt)))
        s.add(nxt==If(Or(pos>=n,pt<0),pos,e))
        out.append((kind,pos)); pos=nxt
    return out

if __name__=="__main__":
    n=int(sys.argv[1]); mut=sys.argv[2] if len(sys.argv)>2 else "none"
    KW=["in","int","if","is_some","some","none","true"]
    base=[re.escape(k) for k in KW]+[r'"[^"\\]*(?:\\.[^"\\]*)*"', r"i[+-]?[0-9]+", r"f[+-]?[0-9]*\.?[0-9]+([eE][-+]?[0-9]+)?", r"\s+", r"//[^\n\r]*[\n\r]*", r"[a-zA-Z][_a-zA-Z0-9]*", r"[0-9]+"]
    # priority by list order emulation: lalrpop picks max index among longest; literals/regex of match-block beat else-block.
    # emulate by ordering: else-block first (low), then match-block
    A=[base[-2],base[-1]]+base[:-2]
    Bp=list(A)
    if mut=="ident_underscore": Bp[0]=r"[a-zA-Z_][_a-zA-Z0-9]*"
    if mut=="int_nosign": Bp[A.index(r"i[+-]?[0-9]+")]=r"i-?[0-9]+"
    s=Solver(); chars=[Int(f"c{i}") for i in range(n)]
    for c in chars: s.add(c>=0,c<=MAXC)
    t0=time.time()
    ta=tokenizer(s,"a",A,None,chars,n); tb=tokenizer(s,"b",Bp,None,chars,n)
    s.add(Or([Or(x[0]!=y[0],x[1]!=y[1]) for x,y in zip(ta,tb)]))
    t1=time.time(); r=s.check(); t2=time.time()
    w=None
    if r==sat:
        m=s.model(); w=''.join(chr(m[c].as_long()) if m[c] is not None else '?' for c in chars)
    print(f"n={n} mut={mut} encode={t1-t0:.1f}s solve={t2-t1:.1f}s {r} {w!r}")
