import time
from z3 import *
import t as G
LEVELS = G.ORDER[:-1]  # Term..IfExpr
for L in LEVELS:
    G.TOK.append("PH_"+L); G.T["PH_"+L]=len(G.TOK)-1
def grammar_ph():
    P = G.grammar()
    for L in LEVELS: P.append((L, ["PH_"+L], ('leaf', "PH")))
    return P
# Display templates (transcribed from impl Display for Expr for the prototype; the tool extracts them)
TPL = {
 "Add": "( c0 + c1 )", "Mult": "( c0 * c1 )", "Eq": "( c0 == c1 )", "And": "( c0 and c1 )",
 "BitAnd": "c0 & c1", "BitOr": "c0 | c1", "Not": "! ( c0 )", "Neg": "- ( c0 )",
 "Contains": "( c0 contains c1 )", "IdxMap": "( c0 . IDENT )", "If": "( if c0 then c1 else c2 )",
 "F_int": "int ( c0 )", "Call": "IDENT ( c0 )", "L_IDENT": "IDENT",
}
def solve_template(kind, child_levels_sym=True, fixed=None):
    toks_t = TPL[kind].split()
    n = len(toks_t); s = Solver(); toks=[Int(f"t{i}") for i in range(n)]
    childpos = {}
    for i,tk in enumerate(toks_t):
        if tk.startswith("c") and tk[1:].isdigit():
            childpos[int(tk[1:])] = i
            if fixed is not None: s.add(toks[i]==G.T["PH_"+fixed])
            else: s.add(Or([toks[i]==G.T["PH_"+L] for L in LEVELS]))
        else: s.add(toks[i]==G.T[tk])
    D,K,C = G.encode(grammar_ph(),"a",toks,n,s)
    return s,toks,D,K,C,childpos,n
def level_of(kind):
    # tightest level deriving the template with Term-level children
    for L in LEVELS:
        s,toks,D,K,C,cp,n = solve_template(kind, fixed="Term")
        d = D[L].get((0,n))
        if d is None: continue
        s.add(d)
        if s.check()==sat: return L
    return None
lv = {k: level_of(k) for k in TPL}
print("levels:", lv)
t0=time.time()
for P in TPL:
    s,toks,D,K,C,cp,n = solve_template(P)
    if not cp: continue
    d = D["Expr"].get((0,n), BoolVal(False))
    ok = [d]
    if (0,n) in K["Expr"]:
        ok.append(K["Expr"][(0,n)]==G.kid(P))
        for r,pos in sorted(cp.items()):
            # child r must be exactly the placeholder token span, modulo parentheses in the template: child span is the paren group or the token
            # accept either (pos,pos+1) or the enclosing "( c )" span
            lo,hi = C["Expr"][(0,n)][r]
            ok.append(Or(And(lo==pos,hi==pos+1), And(lo==pos-1,hi==pos+2)))
    s.add(Not(And(ok)))
    bad=[]
    while s.check()==sat:
        m=s.model(); ch={r: G.TOK[m[toks[p]].as_long()][3:] for r,p in cp.items()}
        bad.append(ch)
        s.add(Or([toks[p]!=m[toks[p]] for p in cp.values()]))
    # map levels back to kinds
    if bad:
        desc=[]
        for ch in bad:
            desc.append({r:[k for k,l in lv.items() if l==L] for r,L in ch.items() if any(l==L for l in lv.values())})
        # only report combos whose levels are inhabited by some kind
        inhabited=[ch for ch in bad if all(any(l==L for l in lv.values()) for L in ch.values())]
        print(P, "FAILS for child levels:", inhabited)
    else:
        print(P, "ok for all child levels")
print("time %.1fs"%(time.time()-t0))
