use reval::prelude::*;
fn rt(src: &str) {
    let e = Expr::parse(src).expect("parse src");
    let t = e.to_string();
    match Expr::parse(&t) {
        Ok(e2) => println!("{:<28} -> {:<34} roundtrip_equal={}", src, t, e2 == e),
        Err(err) => println!("{:<28} -> {:<34} REPARSE ERROR: {}", src, t, err.to_string().lines().next().unwrap_or("")),
    }
}
fn main() {
    for s in ["a & (b & c)", "(a & b).x", "(a & b) contains c", "(!a) contains b", "(-a).x", "(-a) in b", "\"a\\\"b\"", "\"a\\\\b\"", "f1e999", "a & b & c", "-(a) * b", "i-5", "f-0.5", "(a + b) * c", "if a then b else c"] { rt(s); }
    let r = std::panic::catch_unwind(|| Expr::parse("a.99999999999999999999").is_ok());
    println!("index 20 digits: panicked={}", r.is_err());
}
