#![allow(unused)]
extern crate alloc;
use reval::prelude::*;
use std::future::Future;
use std::pin::Pin;
use std::task::{Context, Poll, RawWaker, RawWakerVTable, Waker};

fn noop_raw() -> RawWaker {
    fn clone(_: *const ()) -> RawWaker { noop_raw() }
    fn noop(_: *const ()) {}
    static VT: RawWakerVTable = RawWakerVTable::new(clone, noop, noop, noop);
    RawWaker::new(std::ptr::null(), &VT)
}
pub fn block_on<F: Future>(mut f: F) -> F::Output {
    let waker = unsafe { Waker::from_raw(noop_raw()) };
    let mut cx = Context::from_waker(&waker);
    let mut f = unsafe { Pin::new_unchecked(&mut f) };
    loop {
        if let Poll::Ready(v) = f.as_mut().poll(&mut cx) { return v; }
    }
}

#[cfg(kani)]
mod proofs {
    use super::*;
    use reval::expr::eval::hooks as h;
    use reval::Error;
    use rust_decimal::Decimal;
    use chrono::{DateTime, Utc, TimeDelta};

    fn any_decimal() -> Decimal {
        let scale: u32 = kani::any();
        kani::assume(scale <= 28);
        Decimal::from_parts(kani::any(), kani::any(), kani::any(), kani::any(), scale)
    }
    fn any_datetime() -> DateTime<Utc> {
        let secs: i64 = kani::any();
        let ns: u32 = kani::any();
        let d = DateTime::from_timestamp(secs, ns);
        kani::assume(d.is_some());
        d.unwrap()
    }
    fn any_duration() -> TimeDelta {
        let secs: i64 = kani::any();
        let ns: u32 = kani::any();
        let d = TimeDelta::new(secs, ns);
        kani::assume(d.is_some());
        d.unwrap()
    }
    fn any_scalar(tag: u8) -> Value {
        match tag {
            0 => Value::Int(kani::any()),
            1 => Value::Float(kani::any()),
            2 => Value::Decimal(any_decimal()),
            3 => Value::Bool(kani::any()),
            4 => Value::DateTime(any_datetime()),
            5 => Value::Duration(any_duration()),
            _ => Value::None,
        }
    }


    #[kani::proof] #[kani::unwind(2)]
    fn v1_gt_int() {
        let a: i128 = kani::any(); let b: i128 = kani::any();
        let res = h::gt(Value::Int(a), Value::Int(b));
        assert!(matches!(&res, Ok(Value::Bool(x)) if *x == (a > b)));
        std::mem::forget(res);
    }
    #[kani::proof] #[kani::unwind(2)]
    fn v2_gt_symtag_simple() {
        let lt: u8 = kani::any(); let rt: u8 = kani::any();
        let l = match lt { 0 => Value::Int(kani::any()), 1 => Value::Float(kani::any()), 2 => Value::Bool(kani::any()), _ => Value::None };
        let r = match rt { 0 => Value::Int(kani::any()), 1 => Value::Float(kani::any()), 2 => Value::Bool(kani::any()), _ => Value::None };
        let both_none = matches!(&l, Value::None) || matches!(&r, Value::None);
        let same = (lt == rt && lt < 2);
        let res = h::gt(l, r);
        if same { assert!(matches!(&res, Ok(Value::Bool(_)))); }
        else if both_none { assert!(matches!(&res, Ok(Value::Bool(false)))); }
        else { assert!(matches!(&res, Err(Error::InvalidType))); }
        std::mem::forget(res);
    }
    #[kani::proof] #[kani::unwind(2)]
    fn v3_gt_dec() {
        let a = any_decimal(); let b = any_decimal();
        let res = h::gt(Value::Decimal(a), Value::Decimal(b));
        assert!(matches!(&res, Ok(Value::Bool(_))));
        std::mem::forget(res);
    }
    #[kani::proof] #[kani::unwind(2)]
    fn v4_gt_dt() {
        let a = any_datetime(); let b = any_datetime();
        let res = h::gt(Value::DateTime(a), Value::DateTime(b));
        assert!(matches!(&res, Ok(Value::Bool(x)) if *x == (a.timestamp() > b.timestamp() || (a.timestamp() == b.timestamp() && a.timestamp_subsec_nanos() > b.timestamp_subsec_nanos()))));
        std::mem::forget(res);
    }
    #[kani::proof] #[kani::unwind(2)]
    fn v5_add_int_float() {
        let res = h::add(Value::Int(kani::any()), Value::Float(kani::any()));
        assert!(matches!(&res, Err(Error::InvalidType)));
        std::mem::forget(res);
    }
    #[kani::proof] #[kani::unwind(30)]
    fn v6_add_dec() {
        let a = any_decimal(); let b = any_decimal();
        let res = h::add(Value::Decimal(a), Value::Decimal(b));
        assert!(matches!(&res, Ok(Value::Decimal(_))));
        std::mem::forget(res);
    }
    #[kani::proof] #[kani::unwind(2)]
    fn v7_sub_dt_dur() {
        let a = any_datetime(); let b = any_duration();
        let res = h::sub(Value::DateTime(a), Value::Duration(b));
        assert!(matches!(&res, Ok(Value::DateTime(_))));
        std::mem::forget(res);
    }
    #[kani::proof] #[kani::unwind(2)]
    fn v8_mult_int() {
        let a: i128 = kani::any(); let b: i128 = kani::any();
        kani::assume(a.checked_mul(b).is_some());
        let res = h::mult(Value::Int(a), Value::Int(b));
        assert!(matches!(&res, Ok(Value::Int(x)) if *x == a.wrapping_mul(b)));
        std::mem::forget(res);
    }
    #[kani::proof] #[kani::unwind(1)]
    fn v9_neg_symtag_all() {
        let t: u8 = kani::any(); kani::assume(t <= 6);
        let v = any_scalar(t);
        let res = h::not(v);
        if t == 3 { assert!(matches!(&res, Ok(Value::Bool(_)))); }
        else if t == 6 { assert!(matches!(&res, Ok(Value::None))); }
        else { assert!(matches!(&res, Err(Error::InvalidType))); }
        std::mem::forget(res);
    }

    // through real eval_rec: unary not over symbolic bool
    #[kani::proof] #[kani::unwind(3)]
    fn w1_eval_not() {
        let b: bool = kani::any();
        let e = Expr::not(Expr::value(b));
        let facts = Value::None;
        let r = block_on(e.evaluate(&facts));
        assert!(matches!(&r, Ok(Value::Bool(x)) if *x == !b));
        std::mem::forget(r); std::mem::forget(e);
    }
    #[kani::proof] #[kani::unwind(3)]
    fn w2_ruleset_not() {
        let b: bool = kani::any();
        let e = Expr::not(Expr::value(b));
        let rs = ruleset().with_rule(Rule::new("r", Default::default(), e)).unwrap().build();
        let facts = Value::None;
        let out = block_on(rs.evaluate_value(&facts)).unwrap();
        assert!(out.len() == 1);
        assert!(matches!(&out[0].value, Ok(Value::Bool(x)) if *x == !b));
        std::mem::forget(out); std::mem::forget(rs);
    }
    // leaf only
    #[kani::proof] #[kani::unwind(3)]
    fn w0_eval_leaf() {
        let b: bool = kani::any();
        let e = Expr::value(b);
        let facts = Value::None;
        let r = block_on(e.evaluate(&facts));
        assert!(matches!(&r, Ok(Value::Bool(x)) if *x == b));
        std::mem::forget(r); std::mem::forget(e);
    }

    #[kani::proof] #[kani::unwind(1)]
    fn w0a_eval_leaf_u1() {
        let b: bool = kani::any();
        let e = Expr::value(b);
        let facts = Value::None;
        let r = block_on(e.evaluate(&facts));
        assert!(matches!(&r, Ok(Value::Bool(x)) if *x == b));
        std::mem::forget(r); std::mem::forget(e);
    }
    #[kani::proof] #[kani::unwind(2)]
    fn w0b_eval_leaf_u2() {
        let b: bool = kani::any();
        let e = Expr::value(b);
        let facts = Value::None;
        let r = block_on(e.evaluate(&facts));
        assert!(matches!(&r, Ok(Value::Bool(x)) if *x == b));
        std::mem::forget(r); std::mem::forget(e);
    }

    // ---- P1: trait method stubbing (uninterpreted Decimal add)
    static mut REC: Option<(Decimal, Decimal)> = None;
    static mut RET: Option<Decimal> = None;
    fn stub_dec_add(a: Decimal, b: Decimal) -> Decimal {
        unsafe { REC = Some((a, b)); }
        let r = any_decimal();
        unsafe { RET = Some(r); }
        r
    }
    #[kani::proof] #[kani::unwind(2)]
    #[kani::stub(<rust_decimal::Decimal as core::ops::Add<rust_decimal::Decimal>>::add, stub_dec_add)]
    fn p1_stub_dec_add() {
        let a = any_decimal(); let b = any_decimal();
        let res = h::add(Value::Decimal(a), Value::Decimal(b));
        let (ra, rb) = unsafe { REC.unwrap() };
        let ret = unsafe { RET.unwrap() };
        assert!(ra.serialize() == a.serialize() && rb.serialize() == b.serialize());
        assert!(matches!(&res, Ok(Value::Decimal(x)) if x.serialize() == ret.serialize()));
        std::mem::forget(res);
    }

    // ---- P3: string helpers
    use reval::parse::hooks as ph;
    fn any_ascii_string<const N: usize>() -> String {
        let len: usize = kani::any(); kani::assume(len <= N);
        let mut s = String::new();
        let bytes: [u8; N] = kani::any();
        for i in 0..N { if i < len { kani::assume(bytes[i] < 128); s.push(bytes[i] as char); } }
        s
    }
    #[kani::proof] #[kani::unwind(6)]
    #[kani::stub(alloc::fmt::format, stub_format)]
    fn p3_unescape_total() {
        let s = any_ascii_string::<3>();
        let r = ph::unescape(&s);
        if let Ok(out) = &r { assert!(out.len() <= s.len()); }
        std::mem::forget(r);
    }
    fn stub_format(_a: core::fmt::Arguments<'_>) -> String { String::new() }

    #[kani::proof] #[kani::unwind(42)]
    fn p3_parse_int_digits() {
        // 'i' + up to 40 digits
        const N: usize = 40;
        let len: usize = kani::any(); kani::assume(len >= 1 && len <= N);
        let bytes: [u8; N] = kani::any();
        let mut buf = [b'0'; N + 1];
        buf[0] = b'i';
        for i in 0..N { kani::assume(bytes[i] >= b'0' && bytes[i] <= b'9'); buf[i + 1] = bytes[i]; }
        let s = unsafe { std::str::from_utf8_unchecked(&buf[..len + 1]) };
        let r = ph::parse_int_value(s);
        // reference: Horner in u128 with overflow detection
        let mut acc: Option<u128> = Some(0);
        for i in 0..N { if i < len { acc = acc.and_then(|a| a.checked_mul(10)).and_then(|a| a.checked_add((bytes[i] - b'0') as u128)); } }
        match acc { Some(v) if v <= i128::MAX as u128 => assert!(matches!(&r, Ok(Value::Int(x)) if *x == v as i128)), _ => assert!(r.is_err()) }
        std::mem::forget(r);
    }

    // ---- P4: decimal arithmetic direct
    #[kani::proof] #[kani::unwind(40)]
    fn p4_dec_add_nopanic() {
        let a = any_decimal(); let b = any_decimal();
        let res = h::add(Value::Decimal(a), Value::Decimal(b));
        std::mem::forget(res);
    }
    #[kani::proof] #[kani::unwind(40)]
    fn p4_dec_gt() {
        let a = any_decimal(); let b = any_decimal();
        let res = h::gt(Value::Decimal(a), Value::Decimal(b));
        assert!(matches!(&res, Ok(Value::Bool(_))));
        std::mem::forget(res);
    }
    #[kani::proof] #[kani::unwind(2)]
    fn p4_dec_from_int() {
        let a: i128 = kani::any();
        let res = h::dec(Value::Int(a));
        std::mem::forget(res);
    }
    #[kani::proof] #[kani::unwind(2)]
    fn p4_int_from_float() {
        let a: f64 = kani::any();
        let res = h::int(Value::Float(a));
        // oracle: no silent saturation
        if let Ok(Value::Int(i)) = &res { assert!((*i as f64) == a.trunc()); }
        std::mem::forget(res);
    }
    #[kani::proof] #[kani::unwind(2)]
    fn p4_datetime_from_int() {
        let a: i128 = kani::any();
        let res = h::datetime(Value::Int(a));
        if let Ok(Value::DateTime(d)) = &res { assert!(d.timestamp() as i128 == a); }
        std::mem::forget(res);
    }

    // ---- P6: serializer
    use serde::Serialize;
    use reval::value::ser::ValueSerializer;
    #[kani::proof] #[kani::unwind(2)]
    fn p6_ser_u128() {
        let a: u128 = kani::any();
        let res = a.serialize(ValueSerializer);
        if let Ok(Value::Int(i)) = &res { assert!(*i >= 0 && *i as u128 == a); }
        std::mem::forget(res);
    }
    #[derive(Serialize)]
    struct S { a: u8, b: Option<i64>, c: (bool, f32) }
    #[kani::proof] #[kani::unwind(5)]
    fn p6_ser_struct() {
        let s = S { a: kani::any(), b: kani::any(), c: (kani::any(), kani::any()) };
        let res = s.serialize(ValueSerializer);
        match &res {
            Ok(Value::Map(m)) => {
                assert!(m.len() == 3);
                assert!(matches!(m.get("a"), Some(Value::Int(x)) if *x == s.a as i128));
            }
            _ => assert!(false),
        }
        std::mem::forget(res);
    }

    // ---- P9: identifier predicate
    #[kani::proof] #[kani::unwind(5)]
    fn p9_ident() {
        let s = any_ascii_string::<3>();
        let got = reval::expr::keywords::hook_is_valid_identifier(&s);
        let b = s.as_bytes();
        let want = !b.is_empty() && (b[0] == b'_' || b[0].is_ascii_alphabetic()) && b[1..].iter().all(|c| *c == b'_' || c.is_ascii_alphanumeric());
        assert!(got == want);
        std::mem::forget(s);
    }

    #[kani::proof] #[kani::unwind(5)]
    #[kani::stub(alloc::fmt::format, stub_format)]
    fn q1_unescape2() {
        let s = any_ascii_string::<2>();
        let r = ph::unescape(&s);
        if let Ok(out) = &r { assert!(out.len() <= s.len()); }
        std::mem::forget(r); std::mem::forget(s);
    }
    #[kani::proof] #[kani::unwind(10)]
    fn q2_parse_int8() {
        const N: usize = 8;
        let len: usize = kani::any(); kani::assume(len >= 1 && len <= N);
        let bytes: [u8; N] = kani::any();
        let mut buf = [b'0'; N + 1];
        buf[0] = b'i';
        for i in 0..N { kani::assume(bytes[i] >= b'0' && bytes[i] <= b'9'); buf[i + 1] = bytes[i]; }
        let s = unsafe { std::str::from_utf8_unchecked(&buf[..len + 1]) };
        let r = ph::parse_int_value(s);
        let mut acc: u128 = 0;
        for i in 0..N { if i < len { acc = acc * 10 + (bytes[i] - b'0') as u128; } }
        assert!(matches!(&r, Ok(Value::Int(x)) if *x == acc as i128));
        std::mem::forget(r);
    }
    // C10: index into a 2-entry map with symbolic values, concrete keys
    use reval::expr::Index;
    #[kani::proof] #[kani::unwind(3)]
    fn q3_index_map() {
        let a: i128 = kani::any(); let b: i128 = kani::any();
        let mut m = std::collections::BTreeMap::new();
        m.insert("a".to_string(), Value::Int(a));
        m.insert("b".to_string(), Value::Int(b));
        let r = reval::expr::eval::hook_index(Value::Map(m), &Index::Map("b".to_string()));
        assert!(matches!(&r, Ok(Value::Int(x)) if *x == b));
        std::mem::forget(r);
    }
    #[kani::proof] #[kani::unwind(3)]
    fn q4_index_vec() {
        let a: i128 = kani::any(); let b: i128 = kani::any();
        let i: usize = kani::any();
        let v = vec![Value::Int(a), Value::Int(b)];
        let r = reval::expr::eval::hook_index(Value::Vec(v), &Index::Vec(i));
        match i { 0 => assert!(matches!(&r, Ok(Value::Int(x)) if *x == a)), 1 => assert!(matches!(&r, Ok(Value::Int(x)) if *x == b)), _ => assert!(matches!(&r, Ok(Value::None))) }
        std::mem::forget(r);
    }
    // C11: function call with cache; non-cacheable first
    use reval::function::hooks::{UserFunctions, FunctionCache};
    static mut CALLS: u32 = 0;
    struct F { cache: bool }
    #[async_trait::async_trait]
    impl UserFunction for F {
        async fn call(&self, p: Value) -> FunctionResult { unsafe { CALLS += 1; } Ok(p) }
        fn name(&self) -> &'static str { "f" }
        fn cacheable(&self) -> bool { self.cache }
    }
    #[kani::proof]
    fn q5_call_noncacheable() {
        let mut fs = UserFunctions::default();
        fs.add_function(F { cache: false }).unwrap();
        let mut cache = FunctionCache::new();
        let a: i128 = kani::any();
        let r1 = block_on(fs.call("f", Value::Int(a), &mut cache));
        let r2 = block_on(fs.call("f", Value::Int(a), &mut cache));
        assert!(unsafe { CALLS } == 2);
        assert!(matches!(&r2, Ok(Value::Int(x)) if *x == a));
        std::mem::forget(r1); std::mem::forget(r2); std::mem::forget(fs); std::mem::forget(cache);
    }
    #[kani::proof]
    fn q6_call_cacheable() {
        let mut fs = UserFunctions::default();
        fs.add_function(F { cache: true }).unwrap();
        let mut cache = FunctionCache::new();
        let r1 = block_on(fs.call("f", Value::Bool(true), &mut cache));
        let r2 = block_on(fs.call("f", Value::Bool(true), &mut cache));
        assert!(unsafe { CALLS } == 1);
        std::mem::forget(r1); std::mem::forget(r2); std::mem::forget(fs); std::mem::forget(cache);
    }
    #[kani::proof] #[kani::unwind(60)]
    fn q7_dec_add_small() {
        // bounded mantissa: 32-bit lo only
        let s1: u32 = kani::any(); let s2: u32 = kani::any(); kani::assume(s1 <= 28 && s2 <= 28);
        let a = Decimal::from_parts(kani::any(), 0, 0, kani::any(), s1);
        let b = Decimal::from_parts(kani::any(), 0, 0, kani::any(), s2);
        let res = h::add(Value::Decimal(a), Value::Decimal(b));
        std::mem::forget(res);
    }

    #[kani::proof] #[kani::unwind(5)]
    #[kani::stub(alloc::fmt::format, stub_format)]
    fn u1_unescape3() {
        let bytes: [u8; 3] = kani::any();
        let len: usize = kani::any(); kani::assume(len <= 2);
        for i in 0..3 { kani::assume(bytes[i] < 128); }
        let s = unsafe { std::str::from_utf8_unchecked(&bytes[..len]) };
        let r = ph::unescape(s);
        // reference: no backslash => identity
        let mut has_bs = false; for i in 0..3 { if i < len && bytes[i] == b'\\' { has_bs = true; } }
        if !has_bs { match &r { Ok(o) => { assert!(o.len() == len); let ob = o.as_bytes(); for i in 0..3 { if i < len { assert!(ob[i] == bytes[i]); } } }, Err(_) => assert!(false) } }
        std::mem::forget(r);
    }
    #[kani::proof] #[kani::unwind(5)]
    fn u2_display_string1() {
        let c: u8 = kani::any(); kani::assume(c < 128);
        let mut v = String::new(); v.push(c as char);
        let t = Value::String(v).to_string();
        let tb = t.as_bytes();
        assert!(tb.len() == 3 && tb[0] == b'"' && tb[1] == c && tb[2] == b'"');
        std::mem::forget(t);
    }


    #[kani::proof] #[kani::unwind(4)]
    #[kani::stub(alloc::fmt::format, stub_format)]
    fn u3_unescape_len2() {
        let bytes: [u8; 2] = kani::any();
        kani::assume(bytes[0] < 128 && bytes[1] < 128);
        let s = unsafe { std::str::from_utf8_unchecked(&bytes) };
        let r = ph::unescape(s);
        if bytes[0] != b'\\' && bytes[1] != b'\\' {
            match &r { Ok(o) => { let ob = o.as_bytes(); assert!(ob.len() == 2 && ob[0] == bytes[0] && ob[1] == bytes[1]); }, Err(_) => assert!(false) }
        } else if bytes[0] == b'\\' && bytes[1] == b'n' {
            match &r { Ok(o) => { let ob = o.as_bytes(); assert!(ob.len() == 1 && ob[0] == 10); }, Err(_) => assert!(false) }
        }
        std::mem::forget(r);
    }

    #[kani::proof] #[kani::unwind(2)]
    fn y1_index_vec1() {
        let a: i128 = kani::any();
        let i: usize = kani::any();
        let v = vec![Value::Int(a)];
        let r = reval::expr::eval::hook_index(Value::Vec(v), &Index::Vec(i));
        if i == 0 { assert!(matches!(&r, Ok(Value::Int(x)) if *x == a)); } else { assert!(matches!(&r, Ok(Value::None))); }
        std::mem::forget(r);
    }
    struct G;
    #[async_trait::async_trait]
    impl UserFunction for G {
        async fn call(&self, p: Value) -> FunctionResult { Ok(p) }
        fn name(&self) -> &'static str { "g" }
    }
    #[kani::proof]
    fn y2_add_function_dup() {
        let mut fs = UserFunctions::default();
        let first_is_f: bool = kani::any();
        let r1 = if first_is_f { fs.add_function(F { cache: true }) } else { fs.add_function(G) };
        assert!(r1.is_ok());
        let r2 = fs.add_function(F { cache: false });
        if first_is_f { assert!(matches!(&r2, Err(Error::DuplicateFunctionName(_)))); } else { assert!(r2.is_ok()); }
        assert!(fs.get("f").is_ok());
        assert!(fs.get("g").is_ok() == !first_is_f);
        std::mem::forget(r1); std::mem::forget(r2); std::mem::forget(fs);
    }

    fn same_f(a: f64, b: f64) -> bool { (a.is_nan() && b.is_nan()) || a.to_bits() == b.to_bits() }
    #[kani::proof] #[kani::unwind(2)]
    fn z1_partialeq() {
        let a: i128 = kani::any(); let b: i128 = kani::any(); let f: f64 = kani::any();
        assert!((Value::Int(a) == Value::Int(b)) == (a == b));
        assert!(!(Value::Int(a) == Value::Float(f)));
        assert!(!(Value::Bool(true) == Value::Int(a)));
        assert!(!(Value::None == Value::Int(a)));
        assert!(Value::None == Value::None);
    }
    #[kani::proof] #[kani::unwind(2)]
    fn z2_float_arith() {
        let a: f64 = kani::any(); let b: f64 = kani::any();
        let r = h::add(Value::Float(a), Value::Float(b)); assert!(matches!(&r, Ok(Value::Float(x)) if same_f(*x, a + b))); std::mem::forget(r);
        let r = h::mult(Value::Float(a), Value::Float(b)); assert!(matches!(&r, Ok(Value::Float(x)) if same_f(*x, a * b))); std::mem::forget(r);
        let r = h::div(Value::Float(a), Value::Float(b)); assert!(matches!(&r, Ok(Value::Float(x)) if same_f(*x, a / b))); std::mem::forget(r);
    }
    #[kani::proof] #[kani::unwind(2)]
    fn z3_float_rem() {
        let a: f64 = kani::any(); let b: f64 = kani::any();
        let r = h::rem(Value::Float(a), Value::Float(b)); assert!(matches!(&r, Ok(Value::Float(x)) if same_f(*x, a % b))); std::mem::forget(r);
    }
    #[kani::proof] #[kani::unwind(2)]
    fn z4_float_round() {
        let a: f64 = kani::any();
        let r = h::round(Value::Float(a)); assert!(matches!(&r, Ok(Value::Float(x)) if same_f(*x, a.round()))); std::mem::forget(r);
        let r = h::floor(Value::Float(a)); assert!(matches!(&r, Ok(Value::Float(x)) if same_f(*x, a.floor()))); std::mem::forget(r);
        let r = h::fract(Value::Float(a)); assert!(matches!(&r, Ok(Value::Float(x)) if same_f(*x, a - a.trunc()))); std::mem::forget(r);
        // independent characterisation of round: half away from zero
        if a.is_finite() && a.abs() < 4503599627370496.0 { let r2 = a.round(); assert!((r2 - a).abs() <= 0.5); }
    }
    #[kani::proof] #[kani::unwind(3)]
    fn z5_upper1() {
        let c: u8 = kani::any(); kani::assume(c < 128);
        let mut v = String::new(); v.push(c as char);
        let r = h::uppercase(Value::String(v));
        match &r { Ok(Value::String(o)) => { let ob = o.as_bytes(); assert!(ob.len() == 1 && ob[0] == c.to_ascii_uppercase()); }, _ => assert!(false) }
        std::mem::forget(r);
    }

    #[kani::proof] #[kani::unwind(2)]
    fn z6_fadd() { let a: f64 = kani::any(); let b: f64 = kani::any();
        let r = h::add(Value::Float(a), Value::Float(b)); assert!(matches!(&r, Ok(Value::Float(x)) if same_f(*x, a + b))); std::mem::forget(r); }
    #[kani::proof] #[kani::unwind(2)]
    fn z7_fmul() { let a: f64 = kani::any(); let b: f64 = kani::any();
        let r = h::mult(Value::Float(a), Value::Float(b)); assert!(matches!(&r, Ok(Value::Float(x)) if same_f(*x, a * b))); std::mem::forget(r); }
    #[kani::proof] #[kani::unwind(2)]
    fn z8_fdiv() { let a: f64 = kani::any(); let b: f64 = kani::any();
        let r = h::div(Value::Float(a), Value::Float(b)); assert!(matches!(&r, Ok(Value::Float(x)) if same_f(*x, a / b))); std::mem::forget(r); }
    #[kani::proof] #[kani::unwind(2)]
    fn z9_fgt() { let a: f64 = kani::any(); let b: f64 = kani::any();
        let r = h::gt(Value::Float(a), Value::Float(b)); assert!(matches!(&r, Ok(Value::Bool(x)) if *x == (a > b))); std::mem::forget(r);
        let r = h::neg(Value::Float(a)); assert!(matches!(&r, Ok(Value::Float(x)) if x.to_bits() == (a.to_bits() ^ (1u64 << 63)))); std::mem::forget(r); }

    fn dec0() -> Decimal { Decimal::from_parts(kani::any(), kani::any(), kani::any(), kani::any(), 0) }
    #[kani::proof] #[kani::unwind(2)]
    fn d1_dec_add_scale0() {
        let a = dec0(); let b = dec0();
        let res = h::add(Value::Decimal(a), Value::Decimal(b));
        std::mem::forget(res);
    }
    #[kani::proof] #[kani::unwind(2)]
    fn d2_dec_mul_scale0() {
        let a = dec0(); let b = dec0();
        let res = h::mult(Value::Decimal(a), Value::Decimal(b));
        std::mem::forget(res);
    }
    #[kani::proof] #[kani::unwind(2)]
    fn d3_dec_gt_scale0() {
        let a = dec0(); let b = dec0();
        let res = h::gt(Value::Decimal(a), Value::Decimal(b));
        assert!(matches!(&res, Ok(Value::Bool(_))));
        std::mem::forget(res);
    }
    #[kani::proof] #[kani::unwind(2)]
    fn d4_dec_neg_floor() {
        let a = any_decimal();
        let res = h::neg(Value::Decimal(a));
        assert!(matches!(&res, Ok(Value::Decimal(x)) if x.mantissa() == -a.mantissa() && x.scale() == a.scale()));
        std::mem::forget(res);
    }

    static mut HIT: u8 = 0;
    fn st_dt_add(a: DateTime<Utc>, _d: TimeDelta) -> DateTime<Utc> { unsafe { HIT = 1; } a }
    #[kani::proof] #[kani::unwind(2)]
    fn k1_stub_dt_add() {
        let a = any_datetime(); let d = any_duration();
        let r = h::add(Value::DateTime(a), Value::Duration(d));
        // real chrono on both sides: differential against checked_add_signed
        kani::assume(a.checked_add_signed(d).is_some());
        assert!(matches!(&r, Ok(Value::DateTime(x)) if Some(*x) == a.checked_add_signed(d)));
        std::mem::forget(r);
    }
    fn st_dec_pcmp(_a: &Decimal, _b: &Decimal) -> Option<core::cmp::Ordering> { unsafe { HIT = 2; } let k: u8 = kani::any(); Some(if k == 0 { core::cmp::Ordering::Less } else if k == 1 { core::cmp::Ordering::Equal } else { core::cmp::Ordering::Greater }) }
    #[kani::proof] #[kani::unwind(2)]
    #[kani::stub(rust_decimal::ops::cmp_impl, st_dec_cmp_impl)]
    fn k2_stub_dec_cmp() {
        let a = any_decimal(); let b = any_decimal();
        let r = h::gt(Value::Decimal(a), Value::Decimal(b));
        assert!(unsafe { HIT } == 2);
        assert!(matches!(&r, Ok(Value::Bool(_))));
        std::mem::forget(r);
    }
    fn st_dec_cmp_impl(_a: &Decimal, _b: &Decimal) -> core::cmp::Ordering { unsafe { HIT = 2; } let k: u8 = kani::any(); if k == 0 { core::cmp::Ordering::Less } else if k == 1 { core::cmp::Ordering::Equal } else { core::cmp::Ordering::Greater } }
    fn st_dec_round(a: &Decimal) -> Decimal { unsafe { HIT = 3; } *a }
    #[kani::proof] #[kani::unwind(2)]
    #[kani::stub(rust_decimal::Decimal::round, st_dec_round)]
    fn k3_stub_dec_round() {
        let a = any_decimal();
        let r = h::round(Value::Decimal(a));
        assert!(unsafe { HIT } == 3);
        std::mem::forget(r);
    }
    fn st_f64_from_str(_s: &str) -> Result<f64, core::num::ParseFloatError> { unsafe { HIT = 4; } Ok(kani::any()) }
    #[kani::proof] #[kani::unwind(3)]
    #[kani::stub(<f64 as core::str::FromStr>::from_str, st_f64_from_str)]
    fn k4_stub_f64_from_str() {
        let r = ph::parse_float_value("f1.5");
        assert!(unsafe { HIT } == 4);
        assert!(matches!(&r, Ok(Value::Float(_))));
        std::mem::forget(r);
    }
    fn st_i128_radix(_s: &str, radix: u32) -> Result<i128, core::num::ParseIntError> { unsafe { HIT = 5 + radix as u8; } Ok(kani::any()) }
    #[kani::proof] #[kani::unwind(3)]
    #[kani::stub(i128::from_str_radix, st_i128_radix)]
    fn k5_stub_i128_radix() {
        let r = ph::parse_hex_int_value("0xff");
        assert!(unsafe { HIT } == 21);
        std::mem::forget(r);
    }

    static mut REC_D: Option<TimeDelta> = None;
    fn st_ndt_add(a: chrono::NaiveDateTime, d: TimeDelta) -> Option<chrono::NaiveDateTime> { unsafe { HIT = 9; REC_D = Some(d); } Some(a) }
    #[kani::proof] #[kani::unwind(2)]
    #[kani::stub(chrono::NaiveDateTime::checked_add_signed, st_ndt_add)]
    fn k6_stub_ndt_add() {
        let a = any_datetime(); let d = any_duration();
        let r = h::add(Value::DateTime(a), Value::Duration(d));
        assert!(unsafe { HIT } == 9);
        assert!(unsafe { REC_D } == Some(d));
        assert!(matches!(&r, Ok(Value::DateTime(x)) if *x == a));
        std::mem::forget(r);
    }
    fn st_td_sub(a: TimeDelta, b: TimeDelta) -> TimeDelta { unsafe { HIT = 10; } let _ = b; a }
    #[kani::proof] #[kani::unwind(2)]
    #[kani::stub(<chrono::TimeDelta as core::ops::Sub<chrono::TimeDelta>>::sub, st_td_sub)]
    fn k7_stub_td_sub() {
        let a = any_duration(); let b = any_duration();
        let r = h::sub(Value::Duration(a), Value::Duration(b));
        assert!(unsafe { HIT } == 10);
        assert!(matches!(&r, Ok(Value::Duration(x)) if *x == a));
        std::mem::forget(r);
    }
}
