import sys, time
from z3 import *
UN_KW = ["int","float","some","none_f","year"]   # reduced set of function keywords for the prototype
TOK = ["=","==","!=",">","<",">=","<=","+","-","*","/","%","!","&","|","^","and","or","if","then","else","contains","in",".","(",")","STRING","INT","IDENT","INDEX"] + UN_KW
T = {t:i for i,t in enumerate(TOK)}
KINDS = {}
def kid(k): return KINDS.setdefault(k, len(KINDS))
# production: (lhs, rhs, action) ; action = ('node', kind, [rhs positions of args in ARG order]) | ('pass', pos) | ('leaf', kind)
def grammar(mut=None):
    P=[]
    def add(l,r,a): P.append((l,r,a))
    add("Expr",["IfExpr"],('pass',0))
    add("IfExpr",["if","IfExpr","then","IfExpr","else","IfExpr"],('node',"If",[1,3,5])); add("IfExpr",["LogExpr"],('pass',0))
    def lev(A,B,ops,right=False):
        for op,k in ops:
            if right: add(A,[B,op,A],('node',k,[0,2]))
            else: add(A,[A,op,B],('node',k,[0,2]))
        add(A,[B],('pass',0))
    lev("LogExpr","EqExpr",[("and","And"),("or","Or")])
    lev("EqExpr","AddExpr",[("=","Eq"),("==","Eq"),("!=","Neq"),(">","Gt"),("<","Lt"),(">=","Gte"),("<=","Lte")])
    lev("AddExpr","MultExpr",[("+","Add"),("-","Sub")], right=(mut=="addright"))
    lev("MultExpr","BitExpr",[("*","Mult"),("/","Div"),("%","Rem")])
    lev("BitExpr","ContainsExpr",[("&","BitAnd"),("|","BitOr"),("^","BitXor")])
    add("ContainsExpr",["IndexExpr","contains","IndexExpr"],('node',"Contains",[0,2]))
    add("ContainsExpr",["IndexExpr","in","IndexExpr"],('node',"Contains",[0,2] if mut=="inswap" else [2,0]))
    add("ContainsExpr",["UnaryExpr"],('pass',0))
    add("UnaryExpr",["-","UnaryExpr"],('node',"Neg",[1])); add("UnaryExpr",["!","UnaryExpr"],('node',"Not",[1])); add("UnaryExpr",["IndexExpr"],('pass',0))
    add("IndexExpr",["IndexExpr",".","IDENT"],('node',"IdxMap",[0])); add("IndexExpr",["IndexExpr",".","INDEX"],('node',"IdxVec",[0])); add("IndexExpr",["Term"],('pass',0))
    for k in UN_KW: add("Term",[k,"(","Expr",")"],('node',"F_"+k,[2]))
    add("Term",["IDENT","(","Expr",")"],('node',"Call",[2]))
    for v in ["IDENT","STRING","INT"]: add("Term",[v],('leaf',"L_"+v))
    add("Term",["(","Expr",")"],('pass',1))
    return P
ORDER = ["Term","IndexExpr","UnaryExpr","ContainsExpr","BitExpr","MultExpr","AddExpr","EqExpr","LogExpr","IfExpr","Expr"]

def encode(P, tag, toks, n, s):
    D={A:{} for A in ORDER}; K={A:{} for A in ORDER}; C={A:{} for A in ORDER}  # C[A][(i,j)] = [ (lo,hi) x3 ]
    byl={}
    for p in P: byl.setdefault(p[0],[]).append(p)
    def splits(rhs,i,j):
        # yield list of (lo,hi) per rhs symbol + condition
        def rec(idx,pos):
            if idx==len(rhs)-1:
                yield [(pos,j)]; return
            for k in range(pos+1, j-(len(rhs)-idx-1)+1):
                for rest in rec(idx+1,k): yield [(pos,k)]+rest
        if len(rhs)<=j-i: yield from rec(0,i)
    def dsym(sym,lo,hi):
        if sym in T: return (toks[lo]==T[sym]) if hi==lo+1 else None
        return D[sym].get((lo,hi))
    for length in range(1,n+1):
        for i in range(0,n-length+1):
            j=i+length
            for A in ORDER:
                cases=[]  # (cond, kind_expr, children_exprs)
                for (_,rhs,act) in byl.get(A,[]):
                    for sp in splits(rhs,i,j):
                        conds=[]; ok=True
                        for sym,(lo,hi) in zip(rhs,sp):
                            d=dsym(sym,lo,hi)
                            if d is None: ok=False; break
                            conds.append(d)
                        if not ok: continue
                        cond=And(conds) if len(conds)>1 else conds[0]
                        if act[0]=='node':
                            ch=[sp[p] for p in act[2]]+[(-1,-1)]*(3-len(act[2]))
                            cases.append((cond, IntVal(kid(act[1])), [(IntVal(a),IntVal(b)) for a,b in ch]))
                        elif act[0]=='leaf':
                            cases.append((cond, IntVal(kid(act[1])), [(IntVal(-1),IntVal(-1))]*3))
                        else:
                            sym=rhs[act[1]]; lo,hi=sp[act[1]]
                            cases.append((cond, K[sym][(lo,hi)], C[sym][(lo,hi)]))
                d=Bool(f"{tag}D_{A}_{i}_{j}"); s.add(d == (Or([c[0] for c in cases]) if cases else BoolVal(False)))
                if not cases: continue
                D[A][(i,j)]=d
                k=Int(f"{tag}K_{A}_{i}_{j}"); ch=[(Int(f"{tag}C{r}l_{A}_{i}_{j}"),Int(f"{tag}C{r}h_{A}_{i}_{j}")) for r in range(3)]
                for cond,ke,ce in cases:
                    s.add(Implies(cond, And([k==ke]+[And(ch[r][0]==ce[r][0], ch[r][1]==ce[r][1]) for r in range(3)])))
                K[A][(i,j)]=k; C[A][(i,j)]=ch
    return D,K,C

def run(n,mut):
    s=Solver(); toks=[Int(f"t{i}") for i in range(n)]
    for t in toks: s.add(t>=0,t<len(TOK))
    t0=time.time()
    D1,K1,C1=encode(grammar(),"a",toks,n,s); D2,K2,C2=encode(grammar(mut),"b",toks,n,s)
    # Same over spans
    same={}
    for length in range(1,n+1):
        for i in range(0,n-length+1):
            j=i+length
            if (i,j) not in D1["Expr"] or (i,j) not in D2["Expr"]: continue
            v=Bool(f"same_{i}_{j}")
            parts=[K1["Expr"][(i,j)]==K2["Expr"][(i,j)]]
            for r in range(3):
                parts.append(And(C1["Expr"][(i,j)][r][0]==C2["Expr"][(i,j)][r][0], C1["Expr"][(i,j)][r][1]==C2["Expr"][(i,j)][r][1]))
                for (k,l),sv in same.items():
                    if k>=i and l<=j and (k,l)!=(i,j):
                        parts.append(Implies(And(C1["Expr"][(i,j)][r][0]==k, C1["Expr"][(i,j)][r][1]==l), sv))
            s.add(v==And(parts)); same[(i,j)]=v
    a=D1["Expr"].get((0,n),BoolVal(False)); b=D2["Expr"].get((0,n),BoolVal(False))
    s.add(Or(a!=b, And(a,b,Not(same[(0,n)]))))
    t1=time.time(); r=s.check(); t2=time.time()
    w=None
    if r==sat:
        m=s.model(); w=[TOK[m[t].as_long()] for t in toks]
    print(f"n={n} mut={mut} encode={t1-t0:.1f}s solve={t2-t1:.1f}s {r} {w}",flush=True)
if __name__=="__main__":
    run(int(sys.argv[1]), None if sys.argv[2]=="none" else sys.argv[2])
