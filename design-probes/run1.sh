#!/bin/bash
# usage: run1.sh harness [timeout]
h=$1; t=${2:-300}
s=$(date +%s)
timeout $t cargo kani -Z stubbing --harness $h --target-dir /tmp/probe-t/$h > /tmp/probe-logs/$h.log 2>&1
rc=$?
e=$(( $(date +%s) - s ))
echo "$h rc=$rc wall=${e}s $(grep -E 'VERIFICATION|Verification Time' /tmp/probe-logs/$h.log | tr '\n' ' ') $(grep -A2 'Failed Checks' /tmp/probe-logs/$h.log | tr '\n' ' ' | cut -c1-200)"
