import sys, time, itertools
from z3 import *

# --- expression grammar transcribed (prototype only; the real tool will parse reval.lalrpop)
UN_KW = ["int","float","dec","date_time","datetime","duration","is_some","is_none","some","none","to_upper","to_lower","uppercase","lowercase","trim","round","floor","fract","year","month","week","day","hour","minute","second"]
TOK = ["=","==","!=",">","<",">=","<=","+","-","*","/","%","!","&","|","^","and","or","if","then","else","contains","in",",",":",".","(",")","[","]","{","}","STRING","INT","FLOAT","TRUE","IDENT","INDEX"] + UN_KW
T = {t:i for i,t in enumerate(TOK)}

def grammar(mut=None):
    G = {}
    def add(nt, *rhs): G.setdefault(nt, []).append(list(rhs))
    add("Expr","IfExpr")
    add("IfExpr","if","IfExpr","then","IfExpr","else","IfExpr"); add("IfExpr","LogExpr")
    RR = mut in ("rightrec","rightrec_chain")
    def lrec(A,op,B):
        if RR: add(A,B,op,A)
        else: add(A,A,op,B)
    for op in ["and","or"]: lrec("LogExpr",op,"EqExpr")
    add("LogExpr","EqExpr")
    for op in ["=","==","!=",">","<",">=","<="]: lrec("EqExpr",op,"AddExpr")
    add("EqExpr","AddExpr")
    for op in ["+","-"]:
        lrec("AddExpr",op,"MultExpr")
    add("AddExpr","MultExpr")
    for op in ["*","/","%"]: lrec("MultExpr",op,"BitExpr")
    add("MultExpr","BitExpr")
    for op in ["&","|","^"]: lrec("BitExpr",op,"ContainsExpr")
    add("BitExpr","ContainsExpr")
    for op in ["contains","in"]: add("ContainsExpr","IndexExpr",op,"IndexExpr")
    if mut=="rightrec_chain": add("ContainsExpr","IndexExpr","contains","IndexExpr","contains","IndexExpr")
    add("ContainsExpr","UnaryExpr")
    for op in ["-","!"]: add("UnaryExpr",op,"UnaryExpr")
    add("UnaryExpr","IndexExpr")
    add("IndexExpr","IndexExpr",".","IDENT"); add("IndexExpr","IndexExpr",".","INDEX"); add("IndexExpr","Term")
    for k in UN_KW+["IDENT"]: add("Term",k,"(","Expr",")")
    add("Term","IDENT"); add("Term",":","IDENT")
    add("Term","[","Items","]"); add("Term","[","]")
    add("Items","Expr"); add("Items","Expr",","); add("Items","Expr",",","Items")
    add("Term","{","KVs","}"); add("Term","{","}")
    add("KV","IDENT",":","Expr")
    add("KVs","KV"); add("KVs","KV",","); add("KVs","KV",",","KVs")
    for v in ["STRING","INT","FLOAT","TRUE","none"]: add("Term",v)
    add("Term","(","Expr",")")
    if mut=="swaplevels":
        # swap mult and add levels
        pass
    return G

ORDER = ["Term","IndexExpr","UnaryExpr","ContainsExpr","BitExpr","MultExpr","AddExpr","EqExpr","LogExpr","IfExpr","Expr","Items","KV","KVs"]

def encode(G, tag, toks, n, s):
    # D[A][i][j] for 0<=i<j<=n
    D = {A:{} for A in ORDER}
    def deriv(sym,i,j):
        if sym in T:
            return (toks[i]==T[sym]) if j==i+1 else BoolVal(False)
        return D[sym].get((i,j), BoolVal(False))
    def seq(rhs,i,j):
        # rhs derives span i..j
        if len(rhs)==1: return deriv(rhs[0],i,j)
        alts=[]
        first=rhs[0]
        for k in range(i+1,j-(len(rhs)-1)+1):
            a=deriv(first,i,k)
            if is_false(a): continue
            b=seq(rhs[1:],k,j)
            if is_false(b): continue
            alts.append(And(a,b))
        return Or(alts) if alts else BoolVal(False)
    for length in range(1,n+1):
        for i in range(0,n-length+1):
            j=i+length
            for A in ORDER:
                alts=[]
                for rhs in G.get(A,[]):
                    if len(rhs)>length: continue
                    if len(rhs)==1 and rhs[0] not in T and ORDER.index(rhs[0])>=ORDER.index(A): raise Exception("unit order")
                    # left recursion A -> A ... : sub-span is strictly smaller so D[A][(i,k)] is defined already
                    e=seq(rhs,i,j)
                    if not is_false(e): alts.append(e)
                v=Bool(f"{tag}_{A}_{i}_{j}")
                s.add(v == (Or(alts) if alts else BoolVal(False)))
                D[A][(i,j)]=v
    return D

def run(n, mut):
    s=Solver()
    toks=[Int(f"t{i}") for i in range(n)]
    for t in toks: s.add(t>=0, t<len(TOK))
    t0=time.time()
    D1=encode(grammar(),"a",toks,n,s)
    D2=encode(grammar(mut),"b",toks,n,s)
    s.add(D1["Expr"][(0,n)] != D2["Expr"][(0,n)])
    t1=time.time()
    r=s.check()
    t2=time.time()
    w=None
    if r==sat:
        m=s.model(); w=[TOK[m[t].as_long()] for t in toks]
    print(f"n={n} mut={mut} encode={t1-t0:.1f}s solve={t2-t1:.1f}s result={r} {w}")

if __name__=="__main__":
    n=int(sys.argv[1]); mut=sys.argv[2] if len(sys.argv)>2 and sys.argv[2]!="none" else None
    run(n,mut)
