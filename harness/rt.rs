// Runtime shared by every generated harness module. Appended to the scratch snapshot's src/lib.rs as
//   #[cfg(any(kani, verif_replay))] pub(crate) mod __verif_rt { <this file> }
// Under Kani every `Inp::xxx()` is a fresh `kani::any()`; under `--cfg verif_replay` (native replay of a
// solver counterexample as an ordinary #[test]) the values are popped, in the same order, from the byte
// vectors that Kani's concrete playback printed (env VERIF_VALS = "b,b,..;b,b,..;..").
#![allow(warnings)]

pub struct Inp {
    #[cfg(not(kani))]
    vals: std::collections::VecDeque<Vec<u8>>,
}

#[cfg(kani)]
impl Inp {
    pub fn new() -> Self { Inp {} }
    pub fn u8(&mut self) -> u8 { kani::any() }
    pub fn u16(&mut self) -> u16 { kani::any() }
    pub fn u32(&mut self) -> u32 { kani::any() }
    pub fn u64(&mut self) -> u64 { kani::any() }
    pub fn u128(&mut self) -> u128 { kani::any() }
    pub fn usize(&mut self) -> usize { kani::any() }
    pub fn i8(&mut self) -> i8 { kani::any() }
    pub fn i16(&mut self) -> i16 { kani::any() }
    pub fn i32(&mut self) -> i32 { kani::any() }
    pub fn i64(&mut self) -> i64 { kani::any() }
    pub fn i128(&mut self) -> i128 { kani::any() }
    pub fn bool(&mut self) -> bool { kani::any() }
    pub fn f64(&mut self) -> f64 { kani::any() }
    pub fn f32(&mut self) -> f32 { kani::any() }
}

#[cfg(not(kani))]
impl Inp {
    pub fn new() -> Self {
        let s = std::env::var("VERIF_VALS").unwrap_or_default();
        let mut vals = std::collections::VecDeque::new();
        for part in s.split(';') {
            if part.trim().is_empty() { continue; }
            vals.push_back(part.split(',').map(|b| b.trim().parse::<u8>().unwrap()).collect());
        }
        println!("VERIF-REPLAY-START vals={}", vals.len());
        Inp { vals }
    }
    fn next<const N: usize>(&mut self) -> [u8; N] {
        match self.vals.pop_front() {
            Some(v) if v.len() == N => { let mut a = [0u8; N]; a.copy_from_slice(&v); a }
            Some(v) => { println!("VERIF-REPLAY-MISALIGNED want={} got={}", N, v.len()); std::process::exit(4) }
            None => { println!("VERIF-REPLAY-MISALIGNED exhausted"); std::process::exit(4) }
        }
    }
    pub fn u8(&mut self) -> u8 { u8::from_le_bytes(self.next()) }
    pub fn u16(&mut self) -> u16 { u16::from_le_bytes(self.next()) }
    pub fn u32(&mut self) -> u32 { u32::from_le_bytes(self.next()) }
    pub fn u64(&mut self) -> u64 { u64::from_le_bytes(self.next()) }
    pub fn u128(&mut self) -> u128 { u128::from_le_bytes(self.next()) }
    pub fn usize(&mut self) -> usize { usize::from_le_bytes(self.next()) }
    pub fn i8(&mut self) -> i8 { i8::from_le_bytes(self.next()) }
    pub fn i16(&mut self) -> i16 { i16::from_le_bytes(self.next()) }
    pub fn i32(&mut self) -> i32 { i32::from_le_bytes(self.next()) }
    pub fn i64(&mut self) -> i64 { i64::from_le_bytes(self.next()) }
    pub fn i128(&mut self) -> i128 { i128::from_le_bytes(self.next()) }
    pub fn bool(&mut self) -> bool { let b: [u8; 1] = self.next(); b[0] != 0 }
    pub fn f64(&mut self) -> f64 { f64::from_bits(u64::from_le_bytes(self.next())) }
    pub fn f32(&mut self) -> f32 { f32::from_bits(u32::from_le_bytes(self.next())) }
}

/// Precondition of a harness. Natively: a counterexample that violates it is not a counterexample.
#[cfg(kani)]
pub fn assume(c: bool) { kani::assume(c) }
#[cfg(not(kani))]
pub fn assume(c: bool) {
    if !c { println!("VERIF-ASSUME-VIOLATED"); std::process::exit(3) }
}

/// Vacuity witness: must be reachable+satisfiable under Kani; no-op natively.
#[cfg(kani)]
#[macro_export]
macro_rules! vcover { ($c:expr, $m:literal) => { kani::cover!($c, $m) }; }
#[cfg(not(kani))]
#[macro_export]
macro_rules! vcover { ($c:expr, $m:literal) => { let _ = $c; }; }
pub use vcover;

/// Print a label natively so the replay log shows what was observed; no-op under Kani.
#[cfg(kani)]
pub fn show<T>(_label: &str, _v: &T) {}
#[cfg(not(kani))]
pub fn show<T: core::fmt::Debug>(label: &str, v: &T) { println!("VERIF-OBSERVED {label} = {v:?}") }

pub fn same_f64(a: f64, b: f64) -> bool { (a.is_nan() && b.is_nan()) || a.to_bits() == b.to_bits() }
pub fn same_f32(a: f32, b: f32) -> bool { (a.is_nan() && b.is_nan()) || a.to_bits() == b.to_bits() }

// ------------------------------------------------------------------ symbolic values of the dependency types
use chrono::{DateTime, NaiveDate, NaiveDateTime, NaiveTime, TimeDelta, Utc};
use rust_decimal::Decimal;

/// Every valid Decimal: 96-bit mantissa, sign, scale 0..=28 (from_parts normalises the sign of zero).
pub fn any_decimal(inp: &mut Inp) -> Decimal {
    let lo = inp.u32(); let mid = inp.u32(); let hi = inp.u32(); let neg = inp.bool(); let scale = inp.u32();
    assume(scale <= 28);
    Decimal::from_parts(lo, mid, hi, neg, scale)
}
/// Every Decimal with scale 0 (integers of up to 96 bits).
pub fn any_decimal_scale0(inp: &mut Inp) -> Decimal {
    let lo = inp.u32(); let mid = inp.u32(); let hi = inp.u32(); let neg = inp.bool();
    Decimal::from_parts(lo, mid, hi, neg, 0)
}
/// Every valid DateTime<Utc>: built from (year, ordinal) and (second of day, nanosecond) without division.
/// Returns the value together with the numbers it was built from (used by the reference arithmetic).
pub fn any_datetime_parts(inp: &mut Inp) -> (DateTime<Utc>, i32, u32, u32, u32) {
    let y = inp.i32(); let ord = inp.u32(); let secs = inp.u32(); let nano = inp.u32();
    let d = NaiveDate::from_yo_opt(y, ord);
    let t = NaiveTime::from_num_seconds_from_midnight_opt(secs, nano);
    assume(d.is_some() && t.is_some());
    // leap-second representation (nano >= 1e9) is a valid chrono value only in second 59; keep it out: the
    // evaluator cannot produce it from text and chrono documents it as a special case
    assume(nano < 1_000_000_000);
    (DateTime::<Utc>::from_naive_utc_and_offset(NaiveDateTime::new(d.unwrap(), t.unwrap()), Utc), y, ord, secs, nano)
}
pub fn any_datetime(inp: &mut Inp) -> DateTime<Utc> { any_datetime_parts(inp).0 }
/// Every valid TimeDelta, with the (seconds, nanoseconds) it was built from.
pub fn any_duration_parts(inp: &mut Inp) -> (TimeDelta, i64, u32) {
    let secs = inp.i64(); let nanos = inp.u32();
    let d = TimeDelta::new(secs, nanos);
    assume(d.is_some());
    (d.unwrap(), secs, nanos)
}
pub fn any_duration(inp: &mut Inp) -> TimeDelta { any_duration_parts(inp).0 }
/// proleptic Gregorian leap-year rule (independent of chrono)
pub fn ref_is_leap(y: i32) -> bool { let m4 = y.rem_euclid(4) == 0; let m100 = y.rem_euclid(100) == 0; let m400 = y.rem_euclid(400) == 0; m4 && (!m100 || m400) }
/// (month, day) of an ordinal day in a year, by a cumulative table (independent of chrono)
pub fn ref_month_day(y: i32, ord: u32) -> (u32, u32) {
    let f = if ref_is_leap(y) { 29 } else { 28 };
    let lens = [31u32, f, 31, 30, 31, 30, 31, 31, 30, 31, 30, 31];
    let mut rest = ord; let mut m = 0usize;
    while m < 11 && rest > lens[m] { rest -= lens[m]; m += 1; }
    (m as u32 + 1, rest)
}
pub fn dec_parts(d: &Decimal) -> (i128, u32) { (d.mantissa(), d.scale()) }
pub fn same_dec(a: &Decimal, b: &Decimal) -> bool { a.mantissa() == b.mantissa() && a.scale() == b.scale() }
