#!/usr/bin/env python3
"""Developer tool: run ad-hoc harness bodies in the eval overlay.  usage: try_harness.py file.py [timeout] [jobs]
file.py defines H = [(name, body, unwind, stubs), ...] (stubs optional)."""
import sys, os, json
sys.path.insert(0, os.path.dirname(os.path.dirname(os.path.abspath(__file__))))
from vlib.common import Run
from vlib.kani import Harness, Overlay, run_kani
from vlib import cells
ns = {}
exec(open(sys.argv[1]).read(), ns)
timeout = int(sys.argv[2]) if len(sys.argv) > 2 else 300
jobs = int(sys.argv[3]) if len(sys.argv) > 3 else 8
run = Run("TRY", "quick", 0); run.snapshot()
ov = Overlay(run, "cells"); ov.preamble(ns.get("FILE", cells.EVAL), ns["PREAMBLE"] if "PREAMBLE" in ns else cells.PREAMBLE)
hs = []
for t in ns["H"]:
    name, body, unwind = t[0], t[1], t[2]
    stubs = t[3] if len(t) > 3 else []
    h = Harness(name, body, unwind=unwind, stubs=stubs); hs.append(h); ov.add(ns.get("FILE", cells.EVAL), h)
ov.write()
try:
    res = run_kani(run, hs, jobs=jobs, timeout_s=timeout, tag="try")
    for h in hs:
        r = res[h.name]
        print(f"{h.name:40s} {r.status:8s} {r.time_s:8.1f}s covers={r.covers_sat}/{r.covers_sat+r.covers_unsat} {r.detail} {[f['description'][:90] for f in r.failed][:3]}")
except Exception as e:
    print("ERR", str(e)[:3000])
