#!/opt/veriftools/pyvenv/bin/python
"""Developer tool (run after every encoding change): dump the quick-bound queries of the z3-based checks as SMT-LIB2 and
decide them again with the stand-alone z3 4.8.12 (/usr/bin/z3), z3 5.1 (z3-new) and cvc5; all verdicts must agree and no
output line may start with `(error`.  usage: diff_solvers.py [max_n]"""
import glob, os, subprocess, sys, tempfile, time
V = os.path.dirname(os.path.dirname(os.path.abspath(__file__)))
d = tempfile.mkdtemp(prefix="verif-smt-")
nmax = int(sys.argv[1]) if len(sys.argv) > 1 else 4
env = dict(os.environ, VERIF_DUMP_SMT=d, VERIF_TIER="quick")
for prop in ("C07", "C14", "C08"):
    subprocess.run([os.path.join(V, "check"), prop, "--only", "lex" if prop == "C08" else "__none__"], cwd=V, env=env,
                   stdout=subprocess.DEVNULL, stderr=subprocess.DEVNULL)
bad = 0
for f in sorted(glob.glob(os.path.join(d, "*.smt2"))):
    n = int(f.rsplit("-n", 1)[1].split(".")[0])
    if n > nmax:
        continue
    res = {}
    for name, cmd in (("z3-4.8.12", ["/usr/bin/z3", "-T:300", f]), ("z3-5.1", ["z3-new", "-T:300", f]), ("cvc5", ["cvc5", "--lang", "smt2", "--tlimit=300000", f])):
        t = time.time()
        p = subprocess.run(cmd, capture_output=True, text=True)
        out = (p.stdout + p.stderr).strip().splitlines()
        verdict = next((l for l in out if l in ("sat", "unsat", "unknown", "timeout")), "timeout")
        if any(l.startswith("(error") for l in out):
            verdict = "error:" + [l for l in out if l.startswith("(error")][0][:80]
        res[name] = (verdict, round(time.time() - t, 1))
    vs = {v for v, _ in res.values() if v not in ("unknown", "timeout")}
    ok = len(vs) <= 1 and not any(v.startswith("error") for v in vs)
    bad += 0 if ok else 1
    print(("AGREE   " if ok else "DISAGREE"), os.path.basename(f), res)
print("disagreements:", bad)
import shutil; shutil.rmtree(d, ignore_errors=True)
sys.exit(1 if bad else 0)
