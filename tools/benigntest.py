#!/usr/bin/env python3
"""Developer tool: run registered checks against a behaviour-preserving refactoring (expected: no VIOLATION).
usage: benigntest.py <dir with patch.diff> <worktree> <id> <prop> [props..]"""
import json, os, shutil, subprocess, sys, time
V = os.path.dirname(os.path.dirname(os.path.abspath(__file__)))
ENV = dict(os.environ, CARGO_NET_OFFLINE="true", VERIF_EVIDENCE_DIR="/tmp/verif-dev-evidence")
def sh(cmd, cwd, timeout=7200, env=None):
    p = subprocess.run(cmd, cwd=cwd, shell=True, capture_output=True, text=True, timeout=timeout, env=env or ENV)
    return p.returncode, p.stdout + p.stderr
sdir, wt, sid, props = sys.argv[1], sys.argv[2], sys.argv[3], sys.argv[4:]
patch = os.path.join(sdir, "patch.diff")
sh("git checkout -- . && git clean -fdq src", wt)
rc, out = sh(f"git apply {patch}", wt)
if rc:
    print(f"{sid}: patch does not apply: {out[-200:]}"); sys.exit(1)
rct, outt = sh("cargo test --workspace --offline 2>&1 | grep -E '^test result|FAILED|error\\[' ", wt)
meta = {"id": sid, "kind": "behaviour-preserving refactoring", "suite": outt.strip().splitlines(), "ran": []}
for prop in props:
    t0 = time.time()
    rc, out = sh(f"./check {prop}", V, env=dict(ENV, VERIF_REPO=wt))
    lines = [l for l in out.splitlines() if l.startswith(("VIOLATION", "ENCODING-ERROR", "INCONCLUSIVE", "[" + prop))]
    meta["ran"].append({"cmd": f"VERIF_REPO=<worktree with patch> ./check {prop}", "exit": rc, "wall_s": round(time.time() - t0), "lines": lines[:8]})
    print(f"{sid}: check {prop} exit={rc} ({round(time.time() - t0)}s) " + " | ".join(l[:170] for l in lines[:2]), flush=True)
sh("git checkout -- . && git clean -fdq src", wt)
od = os.path.join(V, "seeded", "benign-" + sid); os.makedirs(od, exist_ok=True)
shutil.copy(patch, os.path.join(od, "patch.diff"))
n = os.path.join(sdir, "notes.md")
if os.path.exists(n): meta["what"] = open(n).read()[:1200]
json.dump(meta, open(os.path.join(od, "meta.json"), "w"), indent=1)
