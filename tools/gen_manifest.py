#!/usr/bin/env python3
"""Regenerates MANIFEST.json from the table below (keeps the file valid and consistent)."""
import json, os
V = os.path.dirname(os.path.dirname(os.path.abspath(__file__)))
BOUNDED = ("Bounded symbolic model checking of the real code: the solver's UNSAT answer covers every payload value within the stated bounds; "
           "nothing is claimed outside them. ")
CHECKS = {
 "C01": dict(engine="kani", technique="Kani/CBMC bounded model checking of every operator function per operand-tag tuple (symbolic payloads), overflow/panic checks + range oracles",
   text=BOUNDED + "Every strict operator function is executed by CBMC on every payload of every supported operand-tag tuple with Kani's panic, arithmetic-overflow, cast and bounds checks on; cast cells assert that an Ok result equals the operand's mathematical value. chrono cells run chrono's real code; Decimal + - * / % are decided in the quick tier by recorders (a non-panicking checked_* entry point of rust_decimal is used; replayed natively on Decimal::MAX/MIN/0) and in the thorough tier on rust_decimal's real code at scale 0.",
   note="Trusted: Kani/CBMC model of MIR, CaDiCaL. One operator application per harness. String operands with contents: casts on every 1-2 byte ASCII string and on concrete multi-byte samples, case mapping / trim on concrete samples only. Composite expressions, context.rs, function.rs, list/map operands with contents are outside. Decimal operands at scales > 0 run only through the recorders.", ref="3/C01"),
 "C02": dict(engine="kani", technique="Kani/CBMC differential harness per operator-table cell against a reference table (symbolic payloads); recorder stubs for rust_decimal/chrono operations",
   text=BOUNDED + "One harness per supported cell of the operator table asserts the exact result (value or error class) for every payload; dependency arithmetic is abstracted by recorders (which operation, which operands, which order, pass-through) and additionally run on the real rust_decimal code at scale 0 (thorough); each binary strict arm of the dispatcher is executed on a verbatim copy of its right-hand side (arm slices): its function receives the sub-results in field order and its result is returned.",
   note="Trusted: rust_decimal / chrono arithmetic itself; CBMC float model (Float / and % only by identities). Int * / % exact-value cells are width-staged (32/16-bit operands quick, 64/32 thorough). `Value == Value` is decided directly on PartialEq for every scalar tag pair (IEEE equality for floats). String operands with contents only as listed under C01. The `match` dispatch of eval_rec (pattern -> arm) is read from the source; and/or, list, map, call arms are not executed.", ref="3/C02"),
 "C03": dict(engine="kani", technique="Kani/CBMC harness per (operator, ordered non-None tag pair) outside the supported set: result must be Err(InvalidType) for all payloads",
   text=BOUNDED + "Every unsupported ordered pair of non-None operand tags of every strict operator (all Int/Float/Decimal mixes included) yields Err(InvalidType) for every payload.",
   note="Equality of different types is decided on the real equality helper with the eval_rec oracle (str \"1\" / dec / int / float pairs). and/or are out of CBMC's reach (only if's condition and bool::try_from are decided, under C05/C17); quick runs all numeric mixes + all unary + a seed-rotated quarter of the rest.", ref="3/C03"),
 "C04": dict(engine="kani", technique="Kani/CBMC harness per operator cell with None in an operand position x every tag of the other operand",
   text=BOUNDED + "Every operator with None in each operand position against all 10 tags of the other operand returns exactly the statement's result and never an error.",
   note="The None rule of == / != is decided on the real equality helper with the eval_rec oracle (or on the strict functions if the source implements them that way); deep-inside None is the composition through eval_rec (outside).", ref="3/C04"),
 "C07": dict(engine="z3", technique="z3 bounded CFG equivalence (acceptance + derivation trees) between the grammar extracted from reval.lalrpop and a reference precedence table over a symbolic token vector; Kani harnesses for the Expr constructors",
   text=BOUNDED + "For every token string up to the bound the extracted grammar and the reference table accept the same strings with the same trees (UNSAT per length); every public constructor used by the actions builds exactly its variant (Kani). Witnesses are parsed by the real parser before they count.",
   note="Trusted: lalrpop generates the parser for the grammar text and rejects ambiguity; one lexeme per token class (lexer is C08). Bound: 7 tokens quick, 9 thorough.", ref="3/C07"),
 "C14": dict(engine="z3", technique="z3 bounded CFG equivalence with start symbol Rule against the reference `(@key: expr;)* expr`; Kani harnesses on RuleBuilder::set_name / set_description / build",
   text=BOUNDED + "The Rule/MetaItem productions derive exactly `(@ key : expr ;)* expr` with items in textual order and the expression subtree equal to the parse of the remaining tokens (z3); RuleBuilder's name precedence (metadata over comment), description precedence and the missing-name error (Kani).",
   note="Weakest claim of the set: last-occurrence-wins, rejection of non-constant / non-string-name metadata (RuleBuilder::parse: no CBMC verdict even for one entry) and comment-line extraction in Rule::parse are NOT decided.", ref="3/C14"),
 "C05": dict(engine="kani", technique="Kani/CBMC on the real lazy helpers (`iif`, the equality helper of == / !=) with Expr::eval_rec stubbed by a logging oracle; exact evaluation log and result asserted for every kind of operand result",
   text=BOUNDED + "`if` evaluates its condition and then exactly the selected branch (nothing after a failing or non-boolean condition); == / != do not evaluate the right operand when the left is None and otherwise evaluate both once, left first. Every strict arm of the dispatcher, its right-hand side copied verbatim into its own async fn, evaluates its sub-expressions exactly once in field order, stops at the first error and returns its function's result. Native replay through the public API with a call-logging non-cacheable user function.",
   note="NOT decided: `and` / `or` (four formulations exhausted 37-46 GB without a verdict), list / map / call-argument order (eval_vec / eval_map / Function arm), the `match` dispatch itself (read from the pattern text). The oracle replaces the recursive dispatcher: no real sub-expression is evaluated under Kani.", ref="3/C05, 10.2"),
 "C06": dict(engine="kani", technique="Kani/CBMC on reval's parse helpers, string unescaping and the verbatim IndexExpr action over every ASCII token text of listed lengths admitted by the token's regex (acceptor compiled from the source regex)",
   text=BOUNDED + "For every regex token whose text reaches reval's own code and every listed length, all ASCII texts admitted by the token's regex are run through the helper / action; Kani's panic, unwrap, slice-bound and char-boundary checks decide (e.g. the 20/21-digit list index).",
   note="Lexer (regex-automata) and lalrpop driver totality are third-party and outside; float/decimal parsers and integer parsers at >=20 digits are stubbed total; Rule::parse comment extraction and RuleBuilder outside; string literals: shapes with <=2 body characters.", ref="3/C06"),
 "C08": dict(engine="z3", technique="z3 bounded whole-token equivalence of the source lexer (regex->DFA, rebuilt each run) against a reference lexical spec over symbolic strings; Kani differential harnesses of the numeric/string helpers against Horner / reference decoders",
   text=BOUNDED + "(a) for every string up to the bound the source patterns and the reference lexical spec assign the same token (hence the same tokenisation: keyword vs identifier, literal shapes, layout); (b) digit strings of listed lengths denote their Horner value and helpers pass exactly the text after the prefix to the std/rust_decimal parser; (c) every 1-2 character escape decodes per the table.",
   note="Trusted: lalrpop matcher semantics (validated against the real matcher on the suite's inputs each run), f64::from_str / Decimal::from_str contracts. Bounds: 6 code points quick / 10 thorough; integers <=6 (8) digits exactly, longer structurally; \\u{..} escapes and strings > 2 chars outside.", ref="3/C08"),
 "C13": dict(engine="kani", technique="Kani/CBMC harness per serde data-model kind through the public Serialize/Serializer API (symbolic payloads over the whole type)",
   text=BOUNDED + "All 12 integer widths over their whole range (exact value or error, never another number), f32/f64 bit-exact, bool, char, unit, option, unit/newtype struct, four variant shapes, every non-string key kind -> error, failing Serialize impl -> error not panic, small containers.",
   note="Containers with > 2 elements/fields and nested containers outside (timeouts there are listed inconclusive); serde_json itself is not executed (its data-model mapping is what is asserted).", ref="3/C13"),
 "C15": dict(engine="kani", technique="Kani/CBMC on is_valid_identifier / is_reserved_keyword against reference predicates for all ASCII names <= 3 bytes, every reserved word with its one-byte extensions and truncations",
   text=BOUNDED + "The two predicates with_function relies on agree with the reference (first char `_` or XID_Start, rest XID_Continue; the 38 reserved words plus every lexer keyword) for every ASCII name up to 3 bytes, selected non-ASCII names, and all near misses of reserved words.",
   note="Function names only: duplicate detection for rules and functions (add_boxed_function gave no CBMC verdict), symbol overwrite and invocability are NOT decided.", ref="3/C15"),
 "C16": dict(engine="z3", technique="z3 inductive print->parse step per node kind over the Display templates and grammar extracted from the source (children as opaque phrases of symbolic level); z3 queries on the lexer DFA for literal shapes and for seams between adjacent rendered pieces",
   text=BOUNDED + "(i) for every node kind the extracted Display template, with every child an opaque phrase of any grammar level, derives to exactly that node with those children (induction on depth: unbounded nesting); (ii) every literal rendering shape up to the bound is one token of its class; (iii) no token pattern matches across a seam where two rendered pieces touch. Counterexamples are round-tripped through the real parser and printer.",
   note="Templates are read from the source text of the Display impls; when that shape is not understood they are observed by running the real printer on marker expressions (all parent/position/child-kind combinations; compositionality assumed, spot-checked at depth 3). Trusted: core::fmt number shapes and from_str(to_string(x))==x; lists/maps with 0-2 items; literal shapes <= 5 (8) code points; string contents by Kani only in the thorough tier (1-2 chars).", ref="3/C16"),
 "C17": dict(engine="kani", technique="Kani/CBMC harness per conversion and per (target, source tag) over the whole source type",
   text=BOUNDED + "Every integer extraction over all i128 values, every widening over the whole source type, same-kind round trips, every wrong-kind extraction (error carries the same value), Option, and small containers.",
   note="Containers beyond 2 elements / 1 entry and HashMap are outside; container harnesses that time out are listed inconclusive.", ref="3/C17"),
}
NA = {
 "C09": "RuleSet::evaluate_value is an async loop over Vec<Rule> building Vec<Outcome>; CBMC gave no verdict in 20 min even with the evaluator stubbed (nested coroutines + drop glue of Rule/Expr/Result); nothing smaller carries the property",
 "C10": "every lookup clones/drops values of the recursive container type (Vec<Value>, BTreeMap<String,Value>); CBMC gives no verdict even for 1-3 elements (14-21 min, 13-17 GB); empty containers decide nothing",
 "C11": "the cache key is built by core::fmt (derived Debug) over a dynamically-typed value inside an async fn over boxed trait objects; CBMC does not get through it in 25 min and stubbing the formatter removes the subject of the property",
 "C12": "quantifies over poll schedules, interleavings and abandonment points of the eval_rec coroutine and concurrent evaluations; Kani has no concurrency model and cannot execute that coroutine",
 "C18": "auto-trait membership is decided by rustc's trait solver at type-check time (no values for an SMT solver to range over) and Kani/CBMC has no thread model for the concurrent clause",
 "C19": "native stack exhaustion is not represented in CBMC's memory model and occurs at depths (1e2-1e5 frames) far beyond any unwinding that terminates here",
}
PENDING = {p: "check under construction in this session (see DESIGN.md section 3); not claimed until it is registered here" for p in
           []}
def main():
    checks = []
    for pid, c in CHECKS.items():
        checks.append({"property_id": pid, "quick_cmd": f"./check {pid} --tier quick", "thorough_cmd": f"./check {pid} --tier thorough",
                       "evidence_file": f"/verif/evidence/{pid}.json", "replay_cmd_template": f"./check {pid} --replay {{path}}",
                       "engine": c["engine"], "level_claimed": {"category": "model_checking", "text": c["text"], "design_ref": c["ref"]},
                       "level_note": c["note"], "technique": c["technique"]})
    na = [{"property_id": p, "reason": r} for p, r in NA.items()] + [{"property_id": p, "reason": r} for p, r in PENDING.items() if p not in CHECKS]
    m = {"version": 1, "setup_cmd": "./setup.sh",
         "hooks": {"guard": "cfg(kani) / cfg(verif_replay)", "enable": "no committed hooks: each check appends #[cfg(any(kani, verif_replay))] child modules to a scratch snapshot of /repo's working tree and builds that (cargo kani; RUSTFLAGS=--cfg verif_replay for native replay)",
                   "baseline_off_cmd": "cd /repo && cargo test --workspace --no-fail-fast --offline", "source_commits": [], "add_only": True},
         "engines": [{"name": "kani", "path": "vlib/kani.py", "serves_properties": [p for p, c in CHECKS.items() if c["engine"] == "kani"], "kind_free_text": "Kani 0.68 / CBMC 6.11 bounded model checking of the real Rust code through generated harness overlays"},
                     {"name": "z3", "path": "vlib/synx.py", "serves_properties": [p for p, c in CHECKS.items() if c["engine"] == "z3"], "kind_free_text": "z3 encodings of grammar / lexer / printer templates extracted from the source on every run"}],
         "checks": checks, "not_applicable": sorted(na, key=lambda x: x["property_id"]),
         "notes": "Exit 0 pass / 1 VIOLATION (natively replayed) / 2 machinery could not decide. Known findings: known_findings.json."}
    json.dump(m, open(os.path.join(V, "MANIFEST.json"), "w"), indent=1)
if __name__ == "__main__":
    main()
