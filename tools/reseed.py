#!/usr/bin/env python3
"""Developer tool: re-run a registered check (optionally restricted with --only) against an archived seed and append the answer to its
meta.json.  usage: reseed.py <seed id> <prop> [only-substring]"""
import json
import os
import shutil
import subprocess
import sys
import tempfile
import time

V = os.path.dirname(os.path.dirname(os.path.abspath(__file__)))


def main():
    sid, prop = sys.argv[1], sys.argv[2]
    only = sys.argv[3] if len(sys.argv) > 3 else None
    sdir = os.path.join(V, "seeded", sid)
    wt = tempfile.mkdtemp(prefix="reseed-")
    try:
        subprocess.run(["rsync", "-a", "--exclude", "/target", "--exclude", "/.git", "/repo/", wt + "/"], check=True)
        subprocess.run(["patch", "-p1", "-s", "-i", os.path.join(sdir, "patch.diff")], cwd=wt, check=True)
        env = dict(os.environ, VERIF_REPO=wt, VERIF_EVIDENCE_DIR=tempfile.gettempdir() + "/verif-dev-evidence")
        t0 = time.time()
        cmd = ["./check", prop] + (["--only", only] if only else [])
        p = subprocess.run(cmd, cwd=V, env=env, capture_output=True, text=True)
        lines = [l[:300] for l in (p.stdout + p.stderr).splitlines() if l.startswith(("VIOLATION", "KNOWN-FINDING", "ENCODING-ERROR", "INCONCLUSIVE", "[" + prop))]
        meta = json.load(open(os.path.join(sdir, "meta.json")))
        meta.setdefault("ran", []).append({"cmd": f"VERIF_REPO=<tree with patch> {' '.join(cmd)}", "exit": p.returncode, "wall_s": round(time.time() - t0),
                                          "lines": lines[:8], "when": os.environ.get("RESEED_WHEN", "after the E3 engine (DESIGN.md section 11)")})
        json.dump(meta, open(os.path.join(sdir, "meta.json"), "w"), indent=1)
        print(f"{sid}: {' '.join(cmd)} exit={p.returncode} " + " | ".join(l[:120] for l in lines[:2]))
    finally:
        shutil.rmtree(wt, ignore_errors=True)


if __name__ == "__main__":
    main()
