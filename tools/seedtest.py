#!/usr/bin/env python3
"""Developer tool: confirm a seeded change (compiles, suite passes, demo fails with it / passes without it) and run the
registered checks against it.  usage: seedtest.py <seed dir with patch.diff, demo.rs> <worktree> <seed id> <prop> [more props]
Writes /verif/seeded/<seed id>/{patch.diff,demo.rs,meta.json}. Never touches /repo."""
import json
import os
import shutil
import subprocess
import sys
import time

V = os.path.dirname(os.path.dirname(os.path.abspath(__file__)))
ENV = dict(os.environ, CARGO_NET_OFFLINE="true", VERIF_EVIDENCE_DIR="/tmp/verif-dev-evidence")


def sh(cmd, cwd, timeout=3600, env=None):
    p = subprocess.run(cmd, cwd=cwd, shell=True, capture_output=True, text=True, timeout=timeout, env=env or ENV)
    return p.returncode, p.stdout + p.stderr


def main():
    sdir, wt, sid, props = sys.argv[1], sys.argv[2], sys.argv[3], sys.argv[4:]
    patch = os.path.join(sdir, "patch.diff")
    demo = os.path.join(sdir, "demo.rs")
    meta = {"seed": sid, "breaks_property": props[0], "ran": []}
    sh("git checkout -- . && rm -f examples/demo.rs", wt)
    rc, out = sh(f"git apply --check {patch}", wt)
    if rc:
        print(f"{sid}: patch does not apply: {out[-300:]}")
        return 1
    # --- demo on the clean tree
    shutil.copy(demo, os.path.join(wt, "examples", "demo.rs"))
    rc0, out0 = sh("cargo run --offline --example demo", wt)
    meta["demo_on_clean_tree_rc"] = rc0
    # --- with the change
    sh(f"git apply {patch}", wt)
    rc1, out1 = sh("cargo run --offline --example demo", wt)
    meta["demo_with_change_rc"] = rc1
    meta["demo_with_change_tail"] = out1[-400:]
    os.remove(os.path.join(wt, "examples", "demo.rs"))
    rct, outt = sh("cargo test --workspace --offline 2>&1 | grep -E '^test result|FAILED|error\\[' ", wt)
    meta["suite_with_change"] = outt.strip().splitlines()
    suite_ok = all("0 failed" in l for l in meta["suite_with_change"] if l.startswith("test result")) and "error[" not in outt and meta["suite_with_change"]
    meta["confirmed"] = bool(rc0 == 0 and rc1 != 0 and suite_ok)
    print(f"{sid}: demo clean rc={rc0}, with change rc={rc1}, suite ok={bool(suite_ok)} -> confirmed={meta['confirmed']}")
    # --- run the checks against the changed tree
    for prop in props:
        t0 = time.time()
        env = dict(ENV, VERIF_REPO=wt)
        rc, out = sh(f"./check {prop}", V, timeout=7200, env=env)
        lines = [l for l in out.splitlines() if l.startswith(("VIOLATION", "KNOWN-FINDING", "ENCODING-ERROR", "INCONCLUSIVE", "[" + prop))]
        meta["ran"].append({"cmd": f"VERIF_REPO=<worktree with patch> ./check {prop}", "exit": rc, "wall_s": round(time.time() - t0),
                            "lines": lines[:12]})
        print(f"{sid}: check {prop} exit={rc} ({round(time.time() - t0)}s) " + " | ".join(l[:160] for l in lines[:3]))
    sh("git checkout -- . && rm -f examples/demo.rs", wt)
    out_dir = os.path.join(V, "seeded", sid)
    os.makedirs(out_dir, exist_ok=True)
    shutil.copy(patch, os.path.join(out_dir, "patch.diff"))
    shutil.copy(demo, os.path.join(out_dir, "demo.rs"))
    notes = os.path.join(sdir, "notes.md")
    if os.path.exists(notes):
        meta["needs_to_manifest"] = open(notes).read()[:1500]
    json.dump(meta, open(os.path.join(out_dir, "meta.json"), "w"), indent=1)
    return 0


if __name__ == "__main__":
    sys.exit(main())
